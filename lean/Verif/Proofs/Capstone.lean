import Verif.Proofs.AcceptComplete
import Verif.Proofs.LinBridge
import Verif.PropertiesConc
/-!
# Capstone: from the verdicts of the executable judges to the properties, stated over what was observed

The two judges the driver runs on the C++ library's behaviour are proved sound elsewhere, with conclusions
about *model internals*: `accept_sound(D)` (an accepted event log is explained by a chain of reference
states) and `check_sound` (a history the checker accepts has an ordering the model reproduces).  This file
turns those verdicts into the property statements themselves, about the events and call records the
harness wrote down.

## Part A — `Accept.accept cfg nkeys evs = (none, m)`, `m ≤ candLimit`  (single-threaded event log)

* `find_hit_written` (**C01 + C04**): a `find`/`find_with_use_count` event `i` that reports `v` for `k` has
  an earlier event `j < i` that may have written `v` to `k` (single insert returning `true`, or a range
  insert listing `(k, v)` with at least one success), no event strictly between certainly disturbed `k`
  (erase / erase range of `k` whatever they returned, effective `clear()`, single insert of `k` returning
  `true`, all-succeeded range insert listing `k`), and in a TTL container the lookup's clock reading is
  strictly before the deadline that write carried — a deadline computed from the log alone (`dlEv`,
  `ttlOf`).  `find_hit_has_writer`, `find_hit_fresh`, `tlru_find_hit_fresh`, `utmap_find_hit_fresh` are
  readable special cases.
* `find_hit_is_lastWriteEv` (**C01, precise**): `lastWriteEv`, an *executable* fold over the events that
  mirrors `Spec.lastWrite`, gives exactly the reported value — for logs in which the per-element verdicts
  of every earlier range insert can be read off its result (none or all succeeded, `detO`).
* `observers_ok` (**C02**): `empty() = (size() == 0)`, `size() ≤ capacity() = cfg.cap` (bounded),
  `capacity() = 0` and `size() = #swept keys` right after a purging call (unbounded), the sweep lists
  strictly increasing keys of the universe, at most `size()` of them, exactly `size()` in the containers
  without deadlines when every inserted key is in the swept universe.
* `accepted_log_is_run`, `accepted_log_C01`: the log's atoms are one `ARun` from the empty store, so every
  theorem of `Spec/Props.lean` applies to it; C01/C04 at atom level as one instance.

What is *not* claimed in Part A: which element of a partially successful range insert wrote the value
(the log does not show per-element verdicts); anything for logs the acceptor gave up on (`m > candLimit`);
and the statements are about the log — that the log is what the C++ did is the harness's business.

## Part B — `Lin.check cfg hs = (some true, u)`, `Records h hs`  (recorded concurrent history)

* `check_linearizable`: the event history is Herlihy–Wing linearizable w.r.t. the executable model.
* `seqRules_of_isLin` (generic, parametrised by the agreement `Agrees` between `MState.step` and the
  bundle's step), `check_seqRules`, and `check_lru … check_utlru` (all eight clock-independent containers),
  `check_utmap` (ut_map / ut_set, conditional on monotone clock readings): the checker's ordering of the
  recorded calls is a linearization of `h` for the container object of `Properties.lean`, replays to the
  recorded outputs, and obeys `SeqRules` (C01/C04, C02, C03, C05, C09, C17).
-/
namespace Verif.Capstone
open Verif Verif.Proto Verif.Spec Verif.Accept Verif.Lin

/-! ## Part B -/

/-- `isLin_linearizable` with its witness exposed: the checker's ordering `lin` of the records, read as
linearization entries (`toLin`), *is* a Herlihy–Wing linearization of the event history. -/
theorem isLin_isLinearization {h : List (Conc.Ev (Time × Op) Out)} {hs lin : List HOp} {m : MState}
    (hr : Records h hs) (hl : IsLin m hs lin) : Conc.IsLinearization mstep m h (lin.map toLin) := by
  obtain ⟨hperm, hrt, hleg⟩ := hl
  have hmem : ∀ o ∈ lin, o ∈ hs := fun o ho => hperm.mem_iff.1 ho
  have hnd : ((lin.map toLin).map (·.pos)).Nodup := by
    have : (lin.map toLin).map (·.pos) = lin.map (·.inv) := by
      rw [List.map_map]; rfl
    rw [this]; exact (hperm.map _).nodup_iff.2 hr.nodup
  have key : ∀ oa ob, oa ∈ lin → ob ∈ lin → oa.res < ob.inv →
      Conc.Before (lin.map toLin) (toLin oa) (toLin ob) := by
    intro oa ob ha hb hlt
    have hra := (hr.sound oa (hmem oa ha)).2
    have hne : oa ≠ ob := by
      rintro rfl
      have := hra.1
      omega
    rcases before_total ha hb hne with h1 | h1
    · exact before_map _ h1
    · exact absurd hlt (pairwise_before hrt h1)
  refine ⟨?_, ?_, hnd, ?_, ?_, ?_⟩
  · exact (legal_toLin m lin).2 hleg
  · intro x hx
    obtain ⟨o, ho, rfl⟩ := List.mem_map.1 hx
    exact (hr.sound o (hmem o ho)).1
  · intro i j t op out hi hres
    obtain ⟨o, ho, rfl⟩ := hr.complete i t op hi
    obtain ⟨h1, h2⟩ := hr.sound o ho
    rw [h1] at hi
    injection hi with hi
    injection hi with ht hop
    subst ht; subst hop
    obtain ⟨_, rfl⟩ := isResponseOf_unique h2 hres
    exact List.mem_map.2 ⟨o, hperm.mem_iff.2 ho, rfl⟩
  · intro a b ha hb htid hpos
    obtain ⟨oa, hoa, rfl⟩ := List.mem_map.1 ha
    obtain ⟨ob, hob, rfl⟩ := List.mem_map.1 hb
    apply key oa ob hoa hob
    obtain ⟨_, hra⟩ := hr.sound oa (hmem oa hoa)
    obtain ⟨hib, _⟩ := hr.sound ob (hmem ob hob)
    simp only [toLin] at htid hpos
    rcases Nat.lt_trichotomy oa.res ob.inv with h1 | h1 | h1
    · exact h1
    · rw [← h1, hra.2.1] at hib
      injection hib with hib
      cases hib
    · exact absurd htid.symm (hra.2.2 ob.inv _ hpos h1 hib)
  · intro a b j out ha hb hres hjb
    obtain ⟨oa, hoa, rfl⟩ := List.mem_map.1 ha
    obtain ⟨ob, hob, rfl⟩ := List.mem_map.1 hb
    apply key oa ob hoa hob
    obtain ⟨_, hra⟩ := hr.sound oa (hmem oa hoa)
    obtain ⟨hj, _⟩ := isResponseOf_unique hra hres
    rw [hj]; exact hjb

/-- **C06, recorded-history tier.**  When the history checker answers `some true` on the call records `hs`
of a complete event history `h` (every invocation has its record, stamps are positions: `Records`), `h` is
linearizable in the sense of Herlihy and Wing with respect to the executable container model started in
the freshly constructed state: the concurrent calls of the C++ container returned what *some* sequential
ordering of the same calls, consistent with per-thread and real-time order, returns on the model. -/
theorem check_linearizable (cfg : Cfg) (hs : List HOp) (u : Nat) (h : CHistory)
    (hc : Lin.check cfg hs = (some true, u)) (hr : Records h hs) :
    Conc.Linearizable mstep (MState.init cfg) h := by
  obtain ⟨lin, hl⟩ := check_sound cfg hs u hc
  exact isLin_linearizable hr hl

/-- the model states of one kind sit inside `MState` through `emb`, and `MState.step` on them is the
bundle's public step -/
def Agrees {σ : Type} (V : Verified σ) (emb : σ → MState) : Prop :=
  ∀ s x, mstep (emb s) x = (emb (V.objStep s x).1, (V.objStep s x).2)

theorem legal_transfer {σ : Type} (V : Verified σ) (emb : σ → MState) (ha : Agrees V emb)
    (s : σ) (l : List ((Time × Op) × Out)) :
    Conc.Legal mstep (emb s) l ↔ Conc.Legal V.objStep s l := by
  induction l generalizing s with
  | nil => simp [Conc.Legal]
  | cons x r ih =>
    obtain ⟨op, out⟩ := x
    simp only [Conc.Legal, ha s op]
    rw [ih]

theorem isLinearization_transfer {σ : Type} (V : Verified σ) (emb : σ → MState) (ha : Agrees V emb)
    {h : CHistory} {lin : CLin} (hl : Conc.IsLinearization mstep (emb V.s0) h lin) :
    Conc.IsLinearization V.objStep V.s0 h lin :=
  ⟨(legal_transfer V emb ha V.s0 _).1 hl.legal, hl.isInv, hl.nodup, hl.complete, hl.progOrder, hl.realTime⟩

/-- the sequential history a checker ordering lists -/
def opsOf (lin : List HOp) : List (Time × Op) := lin.map (fun o => (o.now, o.op))

theorem ops_toLin (lin : List HOp) : CLin.ops (lin.map toLin) = opsOf lin := by
  simp [CLin.ops, opsOf, toLin, List.map_map, Function.comp_def]

theorem outs_toLin (lin : List HOp) : CLin.outs (lin.map toLin) = lin.map (·.out) := by
  simp [CLin.outs, toLin, List.map_map, Function.comp_def]

/-- **Checker ordering ⇒ sequential rules (reusable pattern).**  Let `V` bundle a container model with its
refinement proof, and let its states sit inside `MState` through `emb` compatibly with the public step
(`Agrees`; for every kind this is `rfl`).  If `lin` is a linearization of the records `hs` in the checker's
sense from the embedded fresh state, then — read as a list of linearization entries — it is a Herlihy–Wing
linearization of the event history for the container *object* of `PropertiesConc.lean`, `Core.run` over
its calls returns exactly the recorded outputs, and that sequential history obeys every
policy-independent rule (`SeqRules`), whatever its clock readings (`Timeless`). -/
theorem seqRules_of_isLin {σ : Type} (V : Verified σ) (emb : σ → MState) (ha : Agrees V emb)
    (htl : V.Timeless) {h : CHistory} {hs lin : List HOp}
    (hr : Records h hs) (hl : IsLin (emb V.s0) hs lin) :
    V.Explains h (lin.map toLin) ∧ (V.c.run V.s0 (opsOf lin)).2 = lin.map (·.out) ∧
      V.SeqRules (opsOf lin) := by
  have h1 := isLinearization_transfer V emb ha (isLin_isLinearization hr hl)
  have h2 := V.linearization_sequential_rules htl h1
  rw [ops_toLin] at h2
  refine ⟨h2.1, ?_, h2.2⟩
  have := h2.1.outputs
  rwa [ops_toLin, outs_toLin] at this

/-- the same for a container whose invariant mentions the clock (ut_map / ut_set), for orderings whose
clock readings do not decrease -/
theorem seqRules_of_isLin_mono {σ : Type} (V : Verified σ) (emb : σ → MState) (ha : Agrees V emb)
    {h : CHistory} {hs lin : List HOp}
    (hr : Records h hs) (hl : IsLin (emb V.s0) hs lin) (t0 : Time) (ht : TimesFrom t0 (opsOf lin)) :
    V.Explains h (lin.map toLin) ∧ (V.c.run V.s0 (opsOf lin)).2 = lin.map (·.out) ∧
      V.SeqRules (opsOf lin) := by
  have h1 := isLinearization_transfer V emb ha (isLin_isLinearization hr hl)
  have h3 := (V.linearization_is_history h1).1
  rw [ops_toLin, outs_toLin] at h3
  refine ⟨⟨h1, ?_⟩, h3, V.seqRules_mono _ t0 ht⟩
  rw [ops_toLin, outs_toLin]; exact h3

theorem agrees_lru (cap : Nat) (h : 0 < cap) : Agrees (lruV cap h) MState.lru := fun _ _ => rfl
theorem agrees_mru (cap : Nat) (h : 0 < cap) : Agrees (mruV cap h) MState.mru := fun _ _ => rfl
theorem agrees_fifo (cap : Nat) (h : 0 < cap) : Agrees (fifoV cap h) MState.fifo := fun _ _ => rfl
theorem agrees_rr (cap : Nat) (h : 0 < cap) (rnd : List Nat) (hr : ∀ r ∈ rnd, r < cap) :
    Agrees (rrV cap h rnd hr) MState.rr := fun _ _ => rfl
theorem agrees_lfu (cap : Nat) (h : 0 < cap) : Agrees (lfuV cap h) MState.lfu := fun _ _ => rfl
theorem agrees_lfuda (cap : Nat) (h : 0 < cap) (t n d : Nat) : Agrees (lfudaV cap h t n d) MState.lfuda :=
  fun _ _ => rfl
theorem agrees_tlru (cap : Nat) (h : 0 < cap) : Agrees (tlruV cap h) MState.tlru := fun _ _ => rfl
theorem agrees_utlru (cap : Nat) (h : 0 < cap) (ttl : Nat) : Agrees (utlruV cap h ttl) MState.utlru :=
  fun _ _ => rfl
theorem agrees_utmap (ttl : Nat) : Agrees (utmapV ttl) MState.utmap := fun _ _ => rfl

/-- what a verdict `some true` of the history checker means for a container whose bundle is `V`: there is
an ordering `lin` of the *recorded* calls `hs` which
* is the checker's linearization (`IsLin`: a permutation of the records that respects real time and that
  the executable model reproduces result by result),
* is a Herlihy–Wing linearization of the event history `h` for the container object and replays
  sequentially (`Core.run` from the fresh container) to exactly the recorded outputs (`V.Explains`),
* obeys every policy-independent sequential rule — C01/C04, C02, C03, C05, C09, C17 (`V.SeqRules`). -/
def SeqExplained {σ : Type} (V : Verified σ) (m : MState) (h : CHistory) (hs : List HOp) : Prop :=
  ∃ lin, IsLin m hs lin ∧ V.Explains h (lin.map toLin) ∧
    (V.c.run V.s0 (opsOf lin)).2 = lin.map (·.out) ∧ V.SeqRules (opsOf lin)

/-- `SeqExplained` for a container whose invariant needs non-decreasing clock readings (ut_map / ut_set):
the rules are claimed for the checker's ordering provided its clock readings do not decrease (they do not
in the order of the critical sections, since these containers read the clock under the lock — but the
checker is free to find another ordering) -/
def SeqExplainedMono {σ : Type} (V : Verified σ) (m : MState) (h : CHistory) (hs : List HOp) : Prop :=
  ∃ lin, IsLin m hs lin ∧ V.Explains h (lin.map toLin) ∧
    (V.c.run V.s0 (opsOf lin)).2 = lin.map (·.out) ∧
    (∀ t0, TimesFrom t0 (opsOf lin) → V.SeqRules (opsOf lin))

/-- **Checker verdict ⇒ sequential rules, generic in the container.**  If the model states of the
configured kind embed into `MState` compatibly with the steps (`Agrees`), the bundle's invariant ignores
the clock and `MState.init cfg` is the embedded fresh state, then a verdict `some true` on the records of a
complete history yields `SeqExplained`. -/
theorem check_seqRules {σ : Type} (V : Verified σ) (emb : σ → MState) (ha : Agrees V emb) (htl : V.Timeless)
    (cfg : Cfg) (hinit : MState.init cfg = emb V.s0) (hs : List HOp) (u : Nat) (h : CHistory)
    (hc : Lin.check cfg hs = (some true, u)) (hr : Records h hs) :
    SeqExplained V (MState.init cfg) h hs := by
  obtain ⟨lin, hl⟩ := check_sound cfg hs u hc
  have hl' : IsLin (emb V.s0) hs lin := hinit ▸ hl
  exact ⟨lin, hl, seqRules_of_isLin V emb ha htl hr hl'⟩

theorem check_seqRules_mono {σ : Type} (V : Verified σ) (emb : σ → MState) (ha : Agrees V emb)
    (cfg : Cfg) (hinit : MState.init cfg = emb V.s0) (hs : List HOp) (u : Nat) (h : CHistory)
    (hc : Lin.check cfg hs = (some true, u)) (hr : Records h hs) :
    SeqExplainedMono V (MState.init cfg) h hs := by
  obtain ⟨lin, hl⟩ := check_sound cfg hs u hc
  have hl' : IsLin (emb V.s0) hs lin := hinit ▸ hl
  have h1 := isLinearization_transfer V emb ha (isLin_isLinearization hr hl')
  have h3 := (V.linearization_is_history h1).1
  rw [ops_toLin, outs_toLin] at h3
  exact ⟨lin, hl, ⟨h1, by rw [ops_toLin, outs_toLin]; exact h3⟩, h3, fun t0 ht => V.seqRules_mono _ t0 ht⟩

/-- **lru_cache**: history checker `some true` ⇒ the recorded calls have a sequential ordering obeying the rules -/
theorem check_lru (cfg : Cfg) (hk : cfg.kind = .lru) (hcap : 0 < cfg.cap) (hs : List HOp) (u : Nat)
    (h : CHistory) (hc : Lin.check cfg hs = (some true, u)) (hr : Records h hs) :
    SeqExplained (lruV cfg.cap hcap) (MState.init cfg) h hs :=
  check_seqRules _ MState.lru (agrees_lru _ _) (lruV_timeless _ _) cfg
    (by unfold MState.init; rw [hk]; rfl) hs u h hc hr

/-- **mru_cache** -/
theorem check_mru (cfg : Cfg) (hk : cfg.kind = .mru) (hcap : 0 < cfg.cap) (hs : List HOp) (u : Nat)
    (h : CHistory) (hc : Lin.check cfg hs = (some true, u)) (hr : Records h hs) :
    SeqExplained (mruV cfg.cap hcap) (MState.init cfg) h hs :=
  check_seqRules _ MState.mru (agrees_mru _ _) (mruV_timeless _ _) cfg
    (by unfold MState.init; rw [hk]; rfl) hs u h hc hr

/-- **fifo_cache** -/
theorem check_fifo (cfg : Cfg) (hk : cfg.kind = .fifo) (hcap : 0 < cfg.cap) (hs : List HOp) (u : Nat)
    (h : CHistory) (hc : Lin.check cfg hs = (some true, u)) (hr : Records h hs) :
    SeqExplained (fifoV cfg.cap hcap) (MState.init cfg) h hs :=
  check_seqRules _ MState.fifo (agrees_fifo _ _) (fifoV_timeless _ _) cfg
    (by unfold MState.init; rw [hk]; rfl) hs u h hc hr

/-- **rr_cache** (the random source's outcomes `cfg.rnd` as recorded by the harness) -/
theorem check_rr (cfg : Cfg) (hk : cfg.kind = .rr) (hcap : 0 < cfg.cap) (hrnd : ∀ r ∈ cfg.rnd, r < cfg.cap)
    (hs : List HOp) (u : Nat)
    (h : CHistory) (hc : Lin.check cfg hs = (some true, u)) (hr : Records h hs) :
    SeqExplained (rrV cfg.cap hcap cfg.rnd hrnd) (MState.init cfg) h hs :=
  check_seqRules _ MState.rr (agrees_rr _ _ _ _) (rrV_timeless _ _ _ _) cfg
    (by unfold MState.init; rw [hk]; rfl) hs u h hc hr

/-- **lfu_cache** -/
theorem check_lfu (cfg : Cfg) (hk : cfg.kind = .lfu) (hcap : 0 < cfg.cap) (hs : List HOp) (u : Nat)
    (h : CHistory) (hc : Lin.check cfg hs = (some true, u)) (hr : Records h hs) :
    SeqExplained (lfuV cfg.cap hcap) (MState.init cfg) h hs :=
  check_seqRules _ MState.lfu (agrees_lfu _ _) (lfuV_timeless _ _) cfg
    (by unfold MState.init; rw [hk]; rfl) hs u h hc hr

/-- **lfuda_cache** -/
theorem check_lfuda (cfg : Cfg) (hk : cfg.kind = .lfuda) (hcap : 0 < cfg.cap) (hs : List HOp) (u : Nat)
    (h : CHistory) (hc : Lin.check cfg hs = (some true, u)) (hr : Records h hs) :
    SeqExplained (lfudaV cfg.cap hcap cfg.tick cfg.num cfg.den) (MState.init cfg) h hs :=
  check_seqRules _ MState.lfuda (agrees_lfuda _ _ _ _ _) (lfudaV_timeless _ _ _ _ _) cfg
    (by unfold MState.init; rw [hk]; rfl) hs u h hc hr

/-- **tlru_cache** (the rules include C04: a hit comes strictly before the deadline of the write it reports) -/
theorem check_tlru (cfg : Cfg) (hk : cfg.kind = .tlru) (hcap : 0 < cfg.cap) (hs : List HOp) (u : Nat)
    (h : CHistory) (hc : Lin.check cfg hs = (some true, u)) (hr : Records h hs) :
    SeqExplained (tlruV cfg.cap hcap) (MState.init cfg) h hs :=
  check_seqRules _ MState.tlru (agrees_tlru _ _) (tlruV_timeless _ _) cfg
    (by unfold MState.init; rw [hk]; rfl) hs u h hc hr

/-- **utlru_cache** -/
theorem check_utlru (cfg : Cfg) (hk : cfg.kind = .utlru) (hcap : 0 < cfg.cap) (hs : List HOp) (u : Nat)
    (h : CHistory) (hc : Lin.check cfg hs = (some true, u)) (hr : Records h hs) :
    SeqExplained (utlruV cfg.cap hcap cfg.ttl) (MState.init cfg) h hs :=
  check_seqRules _ MState.utlru (agrees_utlru _ _ _) (utlruV_timeless _ _ _) cfg
    (by unfold MState.init; rw [hk]; rfl) hs u h hc hr

/-- **ut_map / ut_set** (rules conditional on non-decreasing clock readings along the ordering found) -/
theorem check_utmap (cfg : Cfg) (hk : cfg.kind = .utmap ∨ cfg.kind = .utset) (hs : List HOp) (u : Nat)
    (h : CHistory) (hc : Lin.check cfg hs = (some true, u)) (hr : Records h hs) :
    SeqExplainedMono (utmapV cfg.ttl) (MState.init cfg) h hs :=
  check_seqRules_mono _ MState.utmap (agrees_utmap _) cfg
    (by unfold MState.init; rcases hk with hk | hk <;> rw [hk] <;> rfl) hs u h hc hr


/-! ## Part A -/

/-! ### backward reading of the reference semantics: where does a resident entry come from? -/

/-- the atom leaves whatever is resident under `k` alone: it is not a successful write of `k`, not an
erase of `k` (whatever its verdict) and not a clear -/
def quiet (k : Key) : Atom → Prop
  | .ins k' _ _ _ ok => ¬ (k' = k ∧ ok = true)
  | .del k' _ => k' ≠ k
  | .clear => False
  | _ => True

theorem reap_some {m : AMap} {now : Time} {k : Key} {y : Val × Time} (h : m.reap now k = some y) :
    m k = some y ∧ now < y.2 := by
  simp only [AMap.reap] at h
  cases hk : m k with
  | none => simp [hk] at h
  | some z =>
    simp only [hk, Option.filter] at h
    split at h
    · cases h; rename_i hlt; exact ⟨rfl, by simpa using hlt⟩
    · cases h

theorem set_some {m : AMap} {k k' : Key} {x y : Val × Time} (h : m.set k' x k = some y) :
    (k = k' ∧ y = x) ∨ (k ≠ k' ∧ m k = some y) := by
  by_cases hk : k = k'
  · subst hk; rw [AMap.set_eq] at h; cases h; exact Or.inl ⟨rfl, rfl⟩
  · rw [AMap.set_ne _ _ hk] at h; exact Or.inr ⟨hk, h⟩

theorem del_some {m : AMap} {k k' : Key} {y : Val × Time} (h : m.del k' k = some y) :
    k ≠ k' ∧ m k = some y := by
  by_cases hk : k = k'
  · subst hk; rw [AMap.del_eq] at h; cases h
  · rw [AMap.del_ne _ hk] at h; exact ⟨hk, h⟩

/-- one atom, read backwards: an entry resident after it was either written by it or was resident, the
same, before it — and then the atom is `quiet` for its key -/
theorem back_step {fl : Flavor} {cap : Nat} {a a' : A} {now : Time} {x : Atom} {k : Key} {y : Val × Time}
    (hs : AStep fl cap a now x a') (hy : a'.get k = some y) :
    (∃ al, x = .ins k y.1 al y.2 true) ∨ (a.get k = some y ∧ quiet k x) := by
  cases x with
  | ins k' v al d ok =>
    simp only [AStep] at hs
    cases hk : a.get k' with
    | some z =>
      simp only [hk] at hs
      split at hs
      · obtain ⟨rfl, hg, _⟩ := hs
        rw [hg] at hy
        rcases set_some hy with ⟨rfl, rfl⟩ | ⟨hne, h⟩
        · exact Or.inl ⟨al, rfl⟩
        · exact Or.inr ⟨h, fun hh => hne hh.1.symm⟩
      · obtain ⟨rfl, rfl⟩ := hs
        exact Or.inr ⟨hy, fun hh => by cases hh.2⟩
    | none =>
      simp only [hk] at hs
      split at hs
      · obtain ⟨rfl, hs⟩ := hs
        split at hs
        · obtain ⟨w, _, hg, _⟩ := hs
          rw [hg] at hy
          rcases set_some hy with ⟨rfl, rfl⟩ | ⟨hne, h⟩
          · exact Or.inl ⟨al, rfl⟩
          · exact Or.inr ⟨(del_some h).2, fun hh => hne hh.1.symm⟩
        · obtain ⟨hg, _⟩ := hs
          rw [hg] at hy
          rcases set_some hy with ⟨rfl, rfl⟩ | ⟨hne, h⟩
          · exact Or.inl ⟨al, rfl⟩
          · exact Or.inr ⟨h, fun hh => hne hh.1.symm⟩
      · obtain ⟨rfl, rfl⟩ := hs
        exact Or.inr ⟨hy, fun hh => by cases hh.2⟩
  | look k' pk r =>
    right
    simp only [AStep] at hs
    cases hk : a.get k' with
    | some z =>
      simp only [hk] at hs
      split at hs
      · obtain ⟨_, hg, _⟩ := hs
        rw [hg] at hy
        exact ⟨(del_some hy).2, trivial⟩
      · obtain ⟨_, rfl⟩ := hs; exact ⟨hy, trivial⟩
    | none => simp only [hk] at hs; obtain ⟨_, rfl⟩ := hs; exact ⟨hy, trivial⟩
  | del k' ok =>
    right
    simp only [AStep] at hs
    cases hk : a.get k' with
    | some z =>
      simp only [hk] at hs
      obtain ⟨_, hg, _⟩ := hs
      rw [hg] at hy
      exact ⟨(del_some hy).2, fun hh => (del_some hy).1 hh.symm⟩
    | none =>
      simp only [hk] at hs
      obtain ⟨_, rfl⟩ := hs
      exact ⟨hy, fun hh => by rw [hh, hy] at hk; cases hk⟩
  | clear =>
    simp only [AStep] at hs
    rw [hs.1] at hy; simp [AMap.empty] at hy
  | reap n =>
    right
    simp only [AStep] at hs
    split at hs
    · obtain ⟨_, rfl⟩ := hs; exact ⟨hy, trivial⟩
    · rw [hs.1] at hy; exact ⟨(reap_some hy).1, trivial⟩
  | pre =>
    right
    simp only [AStep] at hs
    split at hs
    · rw [hs.1] at hy; exact ⟨(reap_some hy).1, trivial⟩
    · subst hs; exact ⟨hy, trivial⟩
  | age n => simp only [AStep] at hs; subst hs; exact Or.inr ⟨hy, trivial⟩
  | setTtl t => simp only [AStep] at hs; subst hs; exact Or.inr ⟨hy, trivial⟩
  | obsSize n => simp only [AStep] at hs; obtain ⟨_, rfl⟩ := hs; exact Or.inr ⟨hy, trivial⟩
  | obsEmpty b => simp only [AStep] at hs; obtain ⟨_, rfl⟩ := hs; exact Or.inr ⟨hy, trivial⟩
  | obsCap n => simp only [AStep] at hs; obtain ⟨_, rfl⟩ := hs; exact Or.inr ⟨hy, trivial⟩

/-- the atoms of one call, read backwards: an entry resident after them is the one written by the *last*
successful write of its key among them, or was resident before with every atom quiet for its key -/
theorem back_atoms {fl : Flavor} {cap : Nat} {a' : A} {now : Time} {k : Key} {y : Val × Time} :
    ∀ (atoms : List Atom) (a : A), ARun fl cap a (atoms.map (fun x => (now, x))) a' → a'.get k = some y →
      (∃ l1 l2 al, atoms = l1 ++ .ins k y.1 al y.2 true :: l2 ∧ ∀ x ∈ l2, quiet k x) ∨
      (a.get k = some y ∧ ∀ x ∈ atoms, quiet k x)
  | [], a, hr, hy => by
    have := ARun.nil_inv hr
    subst this
    exact Or.inr ⟨hy, fun _ hx => by cases hx⟩
  | x :: atoms, a, hr, hy => by
    obtain ⟨a1, hs, hr'⟩ := ARun.cons_inv hr
    rcases back_atoms atoms a1 hr' hy with ⟨l1, l2, al, rfl, hq⟩ | ⟨h1, hq⟩
    · exact Or.inl ⟨x :: l1, l2, al, rfl, hq⟩
    · rcases back_step hs h1 with ⟨al, rfl⟩ | ⟨h0, hx⟩
      · exact Or.inl ⟨[], atoms, al, rfl, hq⟩
      · refine Or.inr ⟨h0, fun z hz => ?_⟩
        rcases List.mem_cons.1 hz with rfl | hz
        · exact hx
        · exact hq z hz


/-! ### what the atoms of a call say about the call as it was observed -/

theorem insAtomsD_le {a : Allow} {dl : Nat → Time} {xs as n} (h : InsAtomsD a dl xs as n) : n ≤ xs.length := by
  induction h with
  | nil => exact Nat.le_refl _
  | @cons k v t ok xs as n _ ih => cases ok <;> simp <;> omega

theorem insAtomsD_mem {a : Allow} {dl : Nat → Time} {xs as n} (h : InsAtomsD a dl xs as n) {x : Atom}
    (hx : x ∈ as) : ∃ k v t ok, x = .ins k v a (dl t) ok ∧ (k, v, t) ∈ xs ∧ (ok = true → 0 < n) := by
  induction h with
  | nil => cases hx
  | @cons k v t ok xs as n _ ih =>
    rcases List.mem_cons.1 hx with rfl | hx
    · exact ⟨k, v, t, ok, rfl, List.mem_cons_self .., fun h => by simp [h]; omega⟩
    · obtain ⟨k', v', t', ok', h1, h2, h3⟩ := ih hx
      exact ⟨k', v', t', ok', h1, List.mem_cons_of_mem _ h2, fun h => by have := h3 h; omega⟩

theorem insAtomsD_all {a : Allow} {dl : Nat → Time} {xs as n} (h : InsAtomsD a dl xs as n)
    (hn : n = xs.length) : ∀ k v t, (k, v, t) ∈ xs → Atom.ins k v a (dl t) true ∈ as := by
  induction h with
  | nil => intro k v t hm; cases hm
  | @cons k0 v0 t0 ok xs as n h' ih =>
    have hle := insAtomsD_le h'
    simp only [List.length_cons] at hn
    have hok : ok = true := by
      cases ok
      · simp at hn; omega
      · rfl
    subst hok
    have hn' : n = xs.length := by simp at hn; omega
    intro k v t hm
    rcases List.mem_cons.1 hm with heq | hm
    · cases heq; exact List.mem_cons_self ..
    · exact List.mem_cons_of_mem _ (ih hn' k v t hm)

theorem insAtomsD_none {a : Allow} {dl : Nat → Time} {xs as} (h : InsAtomsD a dl xs as 0) :
    ∀ x ∈ as, ∃ k v t, x = Atom.ins k v a (dl t) false := by
  intro x hx
  obtain ⟨k, v, t, ok, rfl, _, h3⟩ := insAtomsD_mem h hx
  cases ok
  · exact ⟨k, v, t, rfl⟩
  · exact absurd (h3 rfl) (Nat.lt_irrefl 0)

theorem lookAtoms_mem {pk : Bool} {ks as rs} (h : LookAtoms pk ks as rs) {x : Atom} (hx : x ∈ as) :
    ∃ k r, x = .look k pk r := by
  induction h with
  | nil => cases hx
  | cons _ ih =>
    rcases List.mem_cons.1 hx with rfl | hx
    · exact ⟨_, _, rfl⟩
    · exact ih hx

theorem delAtoms_mem {ks as n} (h : DelAtoms ks as n) {x : Atom} (hx : x ∈ as) :
    ∃ k ok, x = .del k ok ∧ k ∈ ks := by
  induction h with
  | nil => cases hx
  | cons _ ih =>
    rcases List.mem_cons.1 hx with rfl | hx
    · exact ⟨_, _, rfl, List.mem_cons_self ..⟩
    · obtain ⟨k, ok, h1, h2⟩ := ih hx
      exact ⟨k, ok, h1, List.mem_cons_of_mem _ h2⟩

theorem delAtoms_all {ks as n} (h : DelAtoms ks as n) {k : Key} (hk : k ∈ ks) : ∃ ok, Atom.del k ok ∈ as := by
  induction h with
  | nil => cases hk
  | cons _ ih =>
    rcases List.mem_cons.1 hk with rfl | hk
    · exact ⟨_, List.mem_cons_self ..⟩
    · obtain ⟨ok, h⟩ := ih hk
      exact ⟨ok, List.mem_cons_of_mem _ h⟩

theorem outOk_some {o out : Out} (h : outOk (some o) out = true) : stripOut out = o := by
  simp only [outOk, beq_iff_eq] at h
  exact h.symm

theorem stripOut_bool {out : Out} {b : Bool} (h : stripOut out = .bool b) : out = .bool b := by
  cases out <;> simp_all [stripOut]

theorem stripOut_nat {out : Out} {n : Nat} (h : stripOut out = .nat n) : out = .nat n := by
  cases out <;> simp_all [stripOut]

/-- the deadline a write carries: `tlru_cache` takes the TTL from the call (ms), `utlru_cache`, `ut_map`
and `ut_set` use the configured TTL (ns), the other containers have none -/
def dlEv (kind : Kind) (ttl : Nat) (now : Time) (t : Nat) : Time :=
  match kind with
  | .tlru => now + t * msNs
  | .utlru | .utmap | .utset => now + ttl
  | _ => 0

theorem deadline_eq (c : Ctx) (s : RState) (now : Time) : deadline c s now = dlEv c.kind s.ttl now := by
  funext t
  unfold deadline dlEv
  cases c.kind <;> rfl

/-- the observed call may have written `(v, d)` under `k`: a single insert of `(k, v)` that returned `true`,
or a range insert that lists `(k, v)` and reported at least one success (`dl`: TTL argument ↦ deadline) -/
def writesO (dl : Nat → Time) (k : Key) (v : Val) (d : Time) : Op → Out → Prop
  | .insert k' v' _ t, .bool true => k' = k ∧ v' = v ∧ dl t = d
  | .insertRange xs _, .nat n => 0 < n ∧ ∃ t, (k, v, t) ∈ xs ∧ dl t = d
  | _, _ => False

/-- the observed call certainly disturbed `k`: an erase of `k` or an erase range listing `k` (whatever they
returned), a `clear()` of a container that has one, a single insert of `k` that returned `true`, or a range
insert listing `k` all of whose elements succeeded -/
def touchesO (hc : Bool) (k : Key) : Op → Out → Prop
  | .erase k', _ => k' = k
  | .eraseRange ks, _ => k ∈ ks
  | .clear, _ => hc = true
  | .insert k' _ _ _, out => k' = k ∧ out = .bool true
  | .insertRange xs _, out => out = .nat xs.length ∧ ∃ v t, (k, v, t) ∈ xs
  | _, _ => False

theorem writes_of_atoms {c : Ctx} {dl : Nat → Time} {op : Op} {atoms : List Atom} {x : XOut} {out : Out}
    {k : Key} {v : Val} {al : Allow} {d : Time}
    (ho : OpAtomsD c dl op atoms x) (hout : outOk x out = true) (hm : Atom.ins k v al d true ∈ atoms) :
    writesO dl k v d op out := by
  cases ho with
  | insert =>
    simp only [List.mem_cons, List.not_mem_nil, or_false] at hm
    rcases hm with hm | hm
    · cases hm
    · cases hm
      have := stripOut_bool (outOk_some hout)
      subst this
      exact ⟨rfl, rfl, rfl⟩
  | insertRange h =>
    rcases List.mem_cons.1 hm with hm | hm
    · cases hm
    · obtain ⟨k', v', t', ok', heq, hmem, hpos⟩ := insAtomsD_mem h hm
      cases heq
      have := stripOut_nat (outOk_some hout)
      subst this
      exact ⟨hpos rfl, t', hmem, rfl⟩
  | find => simp at hm
  | findRange h =>
    rcases List.mem_cons.1 hm with hm | hm
    · cases hm
    · obtain ⟨_, _, heq⟩ := lookAtoms_mem h hm; cases heq
  | findCount => simp at hm
  | erase => simp at hm
  | eraseRange h =>
    rcases List.mem_cons.1 hm with hm | hm
    · cases hm
    · obtain ⟨_, _, heq, _⟩ := delAtoms_mem h hm; cases heq
  | clear => simp at hm
  | noClear => simp at hm
  | clean => simp at hm
  | age => simp at hm
  | updateTtl => simp at hm
  | size => simp at hm
  | empty => simp at hm
  | capacity => simp at hm

theorem not_touches_of_quiet {c : Ctx} {dl : Nat → Time} {op : Op} {atoms : List Atom} {x : XOut} {out : Out}
    {k : Key} (ho : OpAtomsD c dl op atoms x) (hout : outOk x out = true) (hq : ∀ z ∈ atoms, quiet k z) :
    ¬ touchesO (hasClear c) k op out := by
  intro ht
  cases ho with
  | insert =>
    rename_i k' v' a t ok
    obtain ⟨rfl, rfl⟩ := ht
    have := outOk_some hout
    simp only [stripOut] at this
    cases this
    exact hq (.ins k' v' a (dl t) true) (by simp) ⟨rfl, rfl⟩
  | insertRange h =>
    obtain ⟨rfl, v, t, hmem⟩ := ht
    have := outOk_some hout
    simp only [stripOut] at this
    cases this
    have := insAtomsD_all h rfl k v t hmem
    exact hq _ (List.mem_cons_of_mem _ this) ⟨rfl, rfl⟩
  | find => exact ht
  | findRange h => exact ht
  | findCount => exact ht
  | erase =>
    rename_i k' ok
    exact hq (.del k' ok) (by simp) ht
  | eraseRange h =>
    obtain ⟨ok, hmem⟩ := delAtoms_all h ht
    exact hq _ (List.mem_cons_of_mem _ hmem) rfl
  | clear hc => exact hq .clear (by simp)
  | noClear hc => rw [hc] at ht; cases ht
  | clean => exact ht
  | age => exact ht
  | updateTtl => exact ht
  | size => exact ht
  | empty => exact ht
  | capacity => exact ht


/-! ### the log as a history: who wrote what is resident -/

/-- the configured TTL (ns) after a call: `update_ttl` exists in `utlru_cache` only -/
def ttlStep (kind : Kind) (ttl : Nat) : Op → Nat
  | .updateTtl t => if kind == .utlru then t * msNs else ttl
  | _ => ttl

/-- the configured TTL (ns) after the calls of `pre`, read off the log -/
def ttlOf (kind : Kind) (ttl0 : Nat) (pre : List Event) : Nat := pre.foldl (fun t e => ttlStep kind t e.op) ttl0

theorem ttlAfter_eq (c : Ctx) (s : RState) (op : Op) : ttlAfter c s op = ttlStep c.kind s.ttl op := by
  cases op <;> rfl

theorem ttlOf_snoc (kind : Kind) (ttl0 : Nat) (pre : List Event) (e : Event) :
    ttlOf kind ttl0 (pre ++ [e]) = ttlStep kind (ttlOf kind ttl0 pre) e.op := by
  simp [ttlOf, List.foldl_append]

/-- containers that have `clear()` -/
def kindHasClear (kind : Kind) : Bool := kind == .utlru || kind == .utmap

/-- the event may have written `(v, d)` under `k`, the configured TTL being `ttl` (see `writesO`) -/
def writes (kind : Kind) (ttl : Nat) (k : Key) (v : Val) (d : Time) (e : Event) : Prop :=
  writesO (dlEv kind ttl e.now) k v d e.op e.out

/-- the event certainly disturbed `k` (see `touchesO`) -/
def touches (kind : Kind) (k : Key) (e : Event) : Prop := touchesO (kindHasClear kind) k e.op e.out

/-- among the events `pre`, some event `j` may have written `(v, d)` under `k` and no later one certainly
disturbed `k` -/
def Hist (kind : Kind) (ttl0 : Nat) (pre : List Event) (k : Key) (v : Val) (d : Time) : Prop :=
  ∃ j ej, pre[j]? = some ej ∧ writes kind (ttlOf kind ttl0 (pre.take j)) k v d ej ∧
    ∀ j' e', j < j' → pre[j']? = some e' → ¬ touches kind k e'

theorem hist_snoc_new {kind : Kind} {ttl0 : Nat} {pre : List Event} {k : Key} {v : Val} {d : Time} {e : Event}
    (h : writes kind (ttlOf kind ttl0 pre) k v d e) : Hist kind ttl0 (pre ++ [e]) k v d := by
  refine ⟨pre.length, e, by simp, by simpa using h, ?_⟩
  intro j' e' hj he'
  have := Conc.lt_length_of_getElem? he'
  simp at this
  omega

theorem hist_snoc_old {kind : Kind} {ttl0 : Nat} {pre : List Event} {k : Key} {v : Val} {d : Time} {e : Event}
    (h : Hist kind ttl0 pre k v d) (hq : ¬ touches kind k e) : Hist kind ttl0 (pre ++ [e]) k v d := by
  obtain ⟨j, ej, hj, hw, hlater⟩ := h
  have hjl := Conc.lt_length_of_getElem? hj
  refine ⟨j, ej, Conc.getElem?_snoc_left hj, ?_, ?_⟩
  · rw [List.take_append_of_le_length (Nat.le_of_lt hjl)]; exact hw
  · intro j' e' hjj he'
    rcases Conc.getElem?_snoc_cases he' with h1 | ⟨_, rfl⟩
    · exact hlater j' e' hjj h1
    · exact hq

/-- the invariant of the explaining chain: the configured TTL is the one read off the log, and every
resident entry has a writer in the log that nothing certainly disturbed since -/
def ChainInv (c : Ctx) (ttl0 : Nat) (pre : List Event) (s : RState) : Prop :=
  s.ttl = ttlOf c.kind ttl0 pre ∧ ∀ k y, (absR s).get k = some y → Hist c.kind ttl0 pre k y.1 y.2

theorem chainInv_step {c : Ctx} {ttl0 : Nat} {pre : List Event} {s s' : RState} {x : XOut} {e : Event}
    (hi : ChainInv c ttl0 pre s) (hex : ExplainedD c s e.now e.op s' x) (hout : outOk x e.out = true) :
    ChainInv c ttl0 (pre ++ [e]) s' := by
  obtain ⟨_, httl, atoms, hoa, hrun⟩ := hex
  refine ⟨?_, ?_⟩
  · rw [httl, ttlAfter_eq, hi.1, ttlOf_snoc]
  · intro k y hy
    rcases back_atoms atoms _ hrun hy with ⟨l1, l2, al, rfl, _⟩ | ⟨h0, hq⟩
    · apply hist_snoc_new
      have := writes_of_atoms hoa hout (k := k) (v := y.1) (al := al) (d := y.2) (by simp)
      rw [deadline_eq, hi.1] at this
      exact this
    · exact hist_snoc_old (hi.2 k y h0) (not_touches_of_quiet hoa hout hq)

/-- the key a single lookup asks for -/
def lookKey : Op → Option Key
  | .find k _ => some k
  | .findCount k _ => some k
  | _ => none

/-- the value a lookup reported (`find`: `optional<V>`; `find_with_use_count`: `optional<pair<V, count>>`) -/
def hitOf : Out → Option Val
  | .opt o => o
  | .optc o => o.map (·.1)
  | _ => none

theorem stripOut_hit {out : Out} {o : Option Val} {v : Val} (h : stripOut out = .opt o) (hv : hitOf out = some v) :
    o = some v := by
  cases out <;> simp_all [stripOut, hitOf]

/-- a single lookup that reports `v`: `(v, d)` was resident under its key when the call started, and in a
TTL container the clock reading of the call is strictly before `d` -/
theorem lookup_hit_resident {c : Ctx} {s s' : RState} {now : Time} {op : Op} {x : XOut} {out : Out} {k : Key} {v : Val}
    (hex : ExplainedD c s now op s' x) (hout : outOk x out = true) (hop : lookKey op = some k)
    (hv : hitOf out = some v) :
    ∃ d, (absR s).get k = some (v, d) ∧ (c.fl ≠ .plain → now < d) := by
  obtain ⟨_, _, atoms, hoa, hrun⟩ := hex
  have main : ∀ (pk : Bool) (r : Option (Val × Nat)), r.map (·.1) = some v →
      ARun c.fl c.cap (absR s) ([Atom.pre, .look k pk r].map (fun a => (now, a))) (absR s') →
      ∃ d, (absR s).get k = some (v, d) ∧ (c.fl ≠ .plain → now < d) := by
    intro pk r hr hrun
    obtain ⟨a1, hpre, hrun⟩ := ARun.cons_inv hrun
    obtain ⟨a2, hlook, _⟩ := ARun.cons_inv hrun
    simp only [AStep] at hlook
    cases hk : a1.get k with
    | none => simp only [hk] at hlook; rw [hlook.1] at hr; cases hr
    | some z =>
      simp only [hk] at hlook
      split at hlook
      · rw [hlook.1] at hr; cases hr
      · rename_i hne
        have hz : z.1 = v := by
          have := hlook.1
          rw [hr] at this
          exact (Option.some.inj this).symm
        rcases back_step hpre hk with ⟨al, habs⟩ | ⟨h0, _⟩
        · cases habs
        · refine ⟨z.2, ?_, ?_⟩
          · rw [h0, ← hz]
          · intro hfl
            cases hc : c.fl with
            | plain => exact absurd hc hfl
            | lazy =>
              rw [hc] at hne
              simp only [true_and, Nat.not_le] at hne
              exact hne
            | eager =>
              rw [hc] at hpre
              exact pre_fresh hpre k z hk
  cases hoa with
  | @find k' pk r =>
    simp only [lookKey, Option.some.injEq] at hop
    subst hop
    exact main pk r (stripOut_hit (outOk_some hout) hv) hrun
  | @findCount k' pk r =>
    simp only [lookKey, Option.some.injEq] at hop
    subst hop
    exact main pk r (stripOut_hit (outOk_some hout) hv) hrun
  | _ => simp [lookKey] at hop


theorem explainsD_hit {c : Ctx} {ttl0 : Nat} {s : RState} {evs : List Event} (hex : ExplainsD c s evs) :
    ∀ (pre : List Event), ChainInv c ttl0 pre s → ∀ (i : Nat) (ei : Event) (k : Key) (v : Val),
      evs[i]? = some ei → lookKey ei.op = some k → hitOf ei.out = some v →
      ∃ d, Hist c.kind ttl0 (pre ++ evs.take i) k v d ∧ (c.fl ≠ .plain → ei.now < d) := by
  induction hex with
  | nil s => intro pre _ i ei k v hi; simp at hi
  | @cons s s' x e es h1 h2 h3 _ ih =>
    intro pre hinv i ei k v hi hop hv
    cases i with
    | zero =>
      simp only [List.getElem?_cons_zero, Option.some.injEq] at hi
      subst hi
      obtain ⟨d, hd, hlt⟩ := lookup_hit_resident h1 h2 hop hv
      exact ⟨d, by simpa using hinv.2 k (v, d) hd, hlt⟩
    | succ i =>
      simp only [List.getElem?_cons_succ] at hi
      obtain ⟨d, hd, hlt⟩ := ih (pre ++ [e]) (chainInv_step hinv h1 h2) i ei k v hi hop hv
      refine ⟨d, ?_, hlt⟩
      simpa using hd

/-- the context `accept` judges a log in -/
def ctxOf (cfg : Cfg) (nkeys : Nat) : Ctx :=
  { kind := cfg.kind, fl := flavorOf cfg.kind, cap := cfg.cap, nkeys := nkeys }

theorem absR_init_get (ttl : Nat) (k : Key) : (absR { ents := [], ttl := ttl }).get k = none := rfl

/-- **C01 + C04 on the implementation's own log.**  Let the acceptor accept the event log `evs` of one
container instance without giving up (`m ≤ candLimit`).  If event `i` is a single lookup of `k`
(`find` or `find_with_use_count`, any peek flag) whose recorded result reports the value `v`, then there are
an earlier event `j < i` and a deadline `d` such that

* event `j` may have written `(v, d)` under `k` (`writes`): it is `insert(k, v, _, t)` that returned `true`,
  or a range insert that lists `(k, v, t)` and reported at least one success; `d` is the deadline such a
  write carries, computed from the log alone — `ej.now + t ms` in tlru_cache, `ej.now +` the TTL configured
  at that point of the log (`ttlOf`: the constructor argument, changed by `update_ttl` in utlru_cache) in
  utlru_cache / ut_map / ut_set, `0` (meaningless) elsewhere;
* no event strictly between `j` and `i` certainly disturbed `k` (`touches`): no erase of `k` and no erase
  range listing `k` (whatever they returned), no `clear()` where the container has one, no single insert of
  `k` that returned `true`, no range insert listing `k` all of whose elements succeeded;
* in the four TTL containers the lookup's clock reading is strictly before `d` (C04).

So for the C++ library: on every accepted log, a lookup never reports a value nobody wrote, never one that
was erased or cleared and not re-written since, never one certainly overwritten since, and never one
whose TTL has run out.  Not claimed: which element of a *partially* successful range insert (result
strictly between 0 and its length — the log does not show per-element verdicts) wrote the value; such an
event may be the writer `j` but never counts as "certainly disturbing".  (Eviction and expiry are not
writes: they can only turn a hit into a miss, which this statement permits.) -/
theorem find_hit_written (cfg : Cfg) (nkeys : Nat) (evs : List Event) (m : Nat)
    (h : accept cfg nkeys evs = (none, m)) (hm : m ≤ candLimit)
    (i : Nat) (ei : Event) (k : Key) (v : Val)
    (hi : evs[i]? = some ei) (hop : lookKey ei.op = some k) (hv : hitOf ei.out = some v) :
    ∃ j ej d, j < i ∧ evs[j]? = some ej ∧
      writes cfg.kind (ttlOf cfg.kind (cfg.ttl * msNs) (evs.take j)) k v d ej ∧
      (∀ j' e', j < j' → j' < i → evs[j']? = some e' → ¬ touches cfg.kind k e') ∧
      (flavorOf cfg.kind ≠ .plain → ei.now < d) := by
  have hex := accept_soundD cfg nkeys evs m h hm
  have hinv : ChainInv (ctxOf cfg nkeys) (cfg.ttl * msNs) [] { ents := [], ttl := cfg.ttl * msNs } :=
    ⟨rfl, fun k y hy => by rw [absR_init_get] at hy; cases hy⟩
  obtain ⟨d, ⟨j, ej, hj, hw, hlater⟩, hlt⟩ := explainsD_hit hex [] hinv i ei k v hi hop hv
  simp only [List.nil_append] at hj hw hlater
  rw [List.getElem?_take] at hj
  split at hj
  · rename_i hji
    refine ⟨j, ej, d, hji, hj, ?_, ?_, hlt⟩
    · rw [List.take_take, Nat.min_eq_left (Nat.le_of_lt hji)] at hw
      exact hw
    · intro j' e' hjj hj'i he'
      apply hlater j' e' hjj
      rw [List.getElem?_take, if_pos hj'i]; exact he'
  · cases hj

/-! ### the precise event-level history variable -/

/-- write every listed pair, in order -/
def setAll (g : Key → Option Val) : List (Key × Val × Nat) → Key → Option Val
  | [] => g
  | (k, v, _) :: xs => setAll (fun k' => if k' = k then some v else g k') xs

/-- the event-level mirror of `Spec.ghost`, computed from what the log shows of one call:
a single insert that returned `true` writes; a range insert that reported as many successes as it has
elements writes them all, in order (any other count: unchanged — only sound for `detO` logs); an erase of
`k` / an erase range listing `k` forgets `k` *whatever it returned* (a failed erase means the key was
absent, so this only strengthens the statement); `clear()` forgets everything where it exists -/
def evGhostO (hc : Bool) (g : Key → Option Val) : Op → Out → Key → Option Val
  | .insert k v _ _, .bool true => fun k' => if k' = k then some v else g k'
  | .insertRange xs _, .nat n => if n = xs.length then setAll g xs else g
  | .erase k, _ => fun k' => if k' = k then none else g k'
  | .eraseRange ks, _ => fun k' => if k' ∈ ks then none else g k'
  | .clear, _ => if hc = true then fun _ => none else g
  | _, _ => g

def evGhost (kind : Kind) (g : Key → Option Val) (e : Event) : Key → Option Val :=
  evGhostO (kindHasClear kind) g e.op e.out

/-- **the event-level history variable**: value of the latest write of each key that the log shows, not
since forgotten -/
def lastWriteEv (kind : Kind) (evs : List Event) : Key → Option Val :=
  evs.foldl (evGhost kind) (fun _ => none)

/-- the verdicts of the elements of a range insert can be read off its result: none or all succeeded -/
def detO : Op → Out → Prop
  | .insertRange xs _, out => out = .nat 0 ∨ out = .nat xs.length
  | _, _ => True

theorem setAll_not_mem {k : Key} : ∀ (xs : List (Key × Val × Nat)) (g : Key → Option Val),
    (∀ v t, (k, v, t) ∉ xs) → setAll g xs k = g k
  | [], g, _ => rfl
  | (k0, v0, t0) :: xs, g, h => by
    simp only [setAll]
    rw [setAll_not_mem xs _ (fun v t hm => h v t (List.mem_cons_of_mem _ hm))]
    have : k ≠ k0 := fun hk => h v0 t0 (by rw [hk]; exact List.mem_cons_self ..)
    simp [this]

theorem setAll_last {a : Allow} {dl : Nat → Time} {xs as n} (h : InsAtomsD a dl xs as n) :
    ∀ (g : Key → Option Val) (l1 l2 : List Atom) (k : Key) (v : Val) (al : Allow) (d : Time),
      n = xs.length → as = l1 ++ Atom.ins k v al d true :: l2 → (∀ z ∈ l2, quiet k z) →
      setAll g xs k = some v := by
  induction h with
  | nil => intro g l1 l2 k v al d _ has; simp at has
  | @cons k0 v0 t0 ok xs as n h' ih =>
    intro g l1 l2 k v al d hn has hq
    have hle := insAtomsD_le h'
    simp only [List.length_cons] at hn
    have hn' : n = xs.length := by cases ok <;> simp at hn <;> omega
    simp only [setAll]
    cases l1 with
    | nil =>
      simp only [List.nil_append, List.cons.injEq, Atom.ins.injEq] at has
      obtain ⟨⟨rfl, rfl, _, _, _⟩, rfl⟩ := has
      rw [setAll_not_mem]
      · simp
      · intro v' t' hm
        exact hq _ (insAtomsD_all h' hn' _ _ _ hm) ⟨rfl, rfl⟩
    | cons z l1 =>
      simp only [List.cons_append, List.cons.injEq] at has
      exact ih _ l1 l2 k v al d hn' has.2 hq

theorem ghost_eq_of_not_touches {hc : Bool} {g : Key → Option Val} {op : Op} {out : Out} {k : Key}
    (h : ¬ touchesO hc k op out) : evGhostO hc g op out k = g k := by
  cases op with
  | insert k' v a t =>
    cases out with
    | bool b =>
      cases b
      · rfl
      · have : k ≠ k' := fun hk => h ⟨hk.symm, rfl⟩
        simp [evGhostO, this]
    | _ => rfl
  | insertRange xs a =>
    cases out with
    | nat n =>
      simp only [evGhostO]
      split
      · rename_i hn
        subst hn
        exact setAll_not_mem xs g (fun v t hm => h ⟨rfl, v, t, hm⟩)
      · rfl
    | _ => rfl
  | erase k' =>
    have : k ≠ k' := fun hk => h hk.symm
    simp [evGhostO, this]
  | eraseRange ks =>
    have : k ∉ ks := h
    simp [evGhostO, this]
  | clear =>
    have : hc = false := by cases hc <;> simp_all [touchesO]
    simp [evGhostO, this]
  | _ => cases out <;> rfl

theorem ghost_of_write {c : Ctx} {dl : Nat → Time} {op : Op} {atoms : List Atom} {x : XOut} {out : Out}
    {hc : Bool} {g : Key → Option Val} {k : Key} {v : Val} {al : Allow} {d : Time} {l1 l2 : List Atom}
    (ho : OpAtomsD c dl op atoms x) (hout : outOk x out = true)
    (hat : atoms = l1 ++ Atom.ins k v al d true :: l2) (hq : ∀ z ∈ l2, quiet k z) (hdet : detO op out) :
    evGhostO hc g op out k = some v := by
  have hmem : Atom.ins k v al d true ∈ atoms := by rw [hat]; simp
  have hw := writes_of_atoms ho hout hmem
  cases ho with
  | @insert k' v' a t ok =>
    simp only [List.mem_cons, List.not_mem_nil, or_false] at hmem
    rcases hmem with hmem | hmem
    · cases hmem
    · cases hmem
      have := stripOut_bool (outOk_some hout)
      subst this
      simp [evGhostO]
  | @insertRange xs a as n h =>
    have hn := stripOut_nat (outOk_some hout)
    subst hn
    obtain ⟨hpos, _⟩ := hw
    have hlen : n = xs.length := by
      rcases hdet with h0 | h1
      · cases h0; exact absurd hpos (Nat.lt_irrefl 0)
      · cases h1; rfl
    simp only [evGhostO, if_pos hlen]
    cases l1 with
    | nil => simp at hat
    | cons z l1 =>
      simp only [List.cons_append, List.cons.injEq] at hat
      exact setAll_last h g l1 l2 k v al d hlen hat.2 hq
  | _ => cases out <;> first | exact hw.elim | (rename_i b; cases b <;> exact hw.elim)

/-- what is resident is what the event-level history variable says -/
def VInv (s : RState) (g : Key → Option Val) : Prop := ∀ k y, (absR s).get k = some y → g k = some y.1

theorem vinv_step {c : Ctx} {s s' : RState} {x : XOut} {e : Event} {g : Key → Option Val}
    (hi : VInv s g) (hex : ExplainedD c s e.now e.op s' x) (hout : outOk x e.out = true)
    (hdet : detO e.op e.out) : VInv s' (evGhost c.kind g e) := by
  obtain ⟨_, _, atoms, hoa, hrun⟩ := hex
  intro k y hy
  rcases back_atoms atoms _ hrun hy with ⟨l1, l2, al, hat, hq⟩ | ⟨h0, hq⟩
  · exact ghost_of_write hoa hout hat hq hdet
  · have := not_touches_of_quiet hoa hout hq
    unfold evGhost
    rw [show kindHasClear c.kind = hasClear c from rfl, ghost_eq_of_not_touches this]
    exact hi k y h0

theorem explainsD_hit_precise {c : Ctx} {s : RState} {evs : List Event} (hex : ExplainsD c s evs) :
    ∀ (g : Key → Option Val), VInv s g → ∀ (i : Nat) (ei : Event) (k : Key) (v : Val),
      (∀ e ∈ evs.take i, detO e.op e.out) →
      evs[i]? = some ei → lookKey ei.op = some k → hitOf ei.out = some v →
      (evs.take i).foldl (evGhost c.kind) g k = some v := by
  induction hex with
  | nil s => intro g _ i ei k v _ hi; simp at hi
  | @cons s s' x e es h1 h2 h3 _ ih =>
    intro g hinv i ei k v hdet hi hop hv
    cases i with
    | zero =>
      simp only [List.getElem?_cons_zero, Option.some.injEq] at hi
      subst hi
      obtain ⟨d, hd, _⟩ := lookup_hit_resident h1 h2 hop hv
      simpa using hinv k (v, d) hd
    | succ i =>
      simp only [List.getElem?_cons_succ] at hi
      simp only [List.take_succ_cons, List.foldl_cons]
      simp only [List.take_succ_cons, List.mem_cons, forall_eq_or_imp] at hdet
      exact ih _ (vinv_step hinv h1 h2 hdet.1) i ei k v hdet.2 hi hop hv


/-- **C01 with the precise event-level history variable.**  `lastWriteEv kind evs` is an executable fold
over the observed events (`evGhostO`): single insert returning `true` → set; range insert reporting as
many successes as it has elements → set all, in order; erase / erase range → forget the key(s) (whatever
the verdict: a failed erase means the key was absent); `clear()` → forget everything, in utlru_cache and
ut_map only (the others have no `clear()`); anything else → unchanged.  On an accepted log, if the verdicts
of the range inserts before event `i` can be read off their results (`detO`: each reported 0 or its
length — in particular: logs without range inserts, or whose range inserts use `allow::insert_or_update`),
a single lookup at event `i` that reports `v` for `k` reports exactly `lastWriteEv` of the events before it.
Not claimed for logs with a partially successful range insert before `i` (use `find_hit_written`). -/
theorem find_hit_is_lastWriteEv (cfg : Cfg) (nkeys : Nat) (evs : List Event) (m : Nat)
    (h : accept cfg nkeys evs = (none, m)) (hm : m ≤ candLimit)
    (i : Nat) (ei : Event) (k : Key) (v : Val)
    (hdet : ∀ e ∈ evs.take i, detO e.op e.out)
    (hi : evs[i]? = some ei) (hop : lookKey ei.op = some k) (hv : hitOf ei.out = some v) :
    lastWriteEv cfg.kind (evs.take i) k = some v := by
  have hex := accept_soundD cfg nkeys evs m h hm
  exact explainsD_hit_precise hex (fun _ => none)
    (fun k y hy => by rw [absR_init_get] at hy; cases hy) i ei k v hdet hi hop hv

/-! ### observers (C02) -/

theorem explainsD_obs {c : Ctx} {s : RState} {evs : List Event} (hex : ExplainsD c s evs)
    (hb : c.fl ≠ .eager → (absR s).size ≤ c.cap) :
    ∀ e ∈ evs, ∃ s', WF s' ∧ obsOk c s' e.now e.obs = true ∧ (c.fl ≠ .eager → s'.ents.length ≤ c.cap) := by
  induction hex with
  | nil s => intro e he; cases he
  | @cons s s' x e es h1 h2 h3 _ ih =>
    obtain ⟨hwf, _, atoms, _, hrun⟩ := h1
    have hb' : c.fl ≠ .eager → (absR s').size ≤ c.cap := fun hfl => size_le_cap_run hfl (hb hfl) hrun
    intro e' he'
    rcases List.mem_cons.1 he' with rfl | he'
    · exact ⟨s', hwf, h3, hb'⟩
    · exact ih hb' e' he'

theorem writesO_key_lt {dl : Nat → Time} {k : Key} {v : Val} {d : Time} {op : Op} {out : Out} {n : Nat}
    (hw : writesO dl k v d op out) (hk : opKeysOk n op = true) : k < n := by
  cases op with
  | insert k' v' a t =>
    cases out with
    | bool b =>
      cases b
      · exact hw.elim
      · obtain ⟨rfl, _, _⟩ := hw
        simpa [opKeysOk] using hk
    | _ => exact hw.elim
  | insertRange xs a =>
    cases out with
    | nat m =>
      obtain ⟨_, t, hmem, _⟩ := hw
      simp only [opKeysOk, List.all_eq_true, decide_eq_true_eq] at hk
      exact hk _ hmem
    | _ => exact hw.elim
  | _ => cases out <;> first | exact hw.elim | (rename_i b; cases b <;> exact hw.elim)

theorem explainsD_keys {c : Ctx} {s : RState} {evs : List Event} (hex : ExplainsD c s evs)
    (hw : WF s) (hk : ∀ en ∈ s.ents, en.key < c.nkeys) (hlog : ∀ e ∈ evs, opKeysOk c.nkeys e.op = true) :
    ∀ e ∈ evs, ∃ s', obsOk c s' e.now e.obs = true ∧ ∀ en ∈ s'.ents, en.key < c.nkeys := by
  induction hex with
  | nil s => intro e he; cases he
  | @cons s s' x e es h1 h2 h3 _ ih =>
    obtain ⟨hwf, _, atoms, hoa, hrun⟩ := h1
    have hk' : ∀ en ∈ s'.ents, en.key < c.nkeys := by
      intro en hen
      have hget : (absR s').get en.key = some (en.val, en.dl) := by
        show (getE s'.ents en.key).map _ = _
        rw [Rr.getE_of_mem (Sorted.nodup hwf) hen]; rfl
      rcases back_atoms atoms _ hrun hget with ⟨l1, l2, al, rfl, _⟩ | ⟨h0, _⟩
      · have := writes_of_atoms hoa h2 (k := en.key) (v := en.val) (al := al) (d := en.dl) (by simp)
        exact writesO_key_lt this (hlog e (List.mem_cons_self ..))
      · have h0' : (getE s.ents en.key).map (fun e => (e.val, e.dl)) = some (en.val, en.dl) := h0
        cases hg : getE s.ents en.key with
        | none => rw [hg] at h0'; cases h0'
        | some e0 =>
          have := hk e0 (getE_mem hg)
          rwa [getE_key hg] at this
    intro e' he'
    rcases List.mem_cons.1 he' with rfl | he'
    · exact ⟨s', h3, hk'⟩
    · exact ih hwf hk' (fun e he => hlog e (List.mem_cons_of_mem _ he)) e' he'

/-- the check `loop` makes on the implementation's own observations of an unbounded container: right after
a call that starts with the purge, `size()` is the number of keys the sweep shows -/
theorem loop_eager_size (c : Ctx) (evs : List Event) : ∀ (cs : List RState) (idx mx m : Nat),
    loop c cs idx evs mx = (none, m) → m ≤ candLimit →
    ∀ e ∈ evs, c.fl = .eager → purges e.op = true → e.obs.size = e.obs.sweep.length := by
  induction evs with
  | nil => intro cs idx mx m _ _ e he; cases he
  | cons e es ih =>
    intro cs idx mx m h hm e' he' hfl hp
    rw [loop_cons] at h
    split at h
    · cases h
    · rename_i hchk
      have hrest : ∀ cs' idx' mx', loop c cs' idx' es mx' = (none, m) → e'.obs.size = e'.obs.sweep.length := by
        intro cs' idx' mx' hl
        rcases List.mem_cons.1 he' with rfl | he'
        · have hfl' : (c.fl == Flavor.eager) = true := by rw [hfl]; rfl
          simp only [hfl', hp, Bool.and_self, Bool.true_and, bne_iff_ne, ne_eq, Decidable.not_not] at hchk
          exact hchk
        · exact ih cs' idx' mx' m hl hm e' he' hfl hp
      split at h
      · exact hrest _ _ _ h
      · split at h
        · have : m = candLimit + 1 := (congrArg Prod.snd h).symm
          omega
        · next css hcss =>
          split at h
          · cases h
          · split at h
            · have : m = (keepOf c e css).length := (congrArg Prod.snd h).symm
              omega
            · exact hrest _ _ _ h

theorem flavor_eager_iff (kind : Kind) : flavorOf kind = .eager ↔ kind.bounded = false := by
  cases kind <;> simp [flavorOf, Kind.bounded]

theorem obsOk_cap {c : Ctx} {s : RState} {now : Time} {o : Obs} (h : obsOk c s now o = true) :
    (if c.fl = .eager then 0 else c.cap) = o.cap ∧ (s.ents.length == 0) = o.empty := by
  unfold obsOk at h
  simp only [Bool.and_eq_true, beq_iff_eq] at h
  exact ⟨h.1.2, h.1.1.2⟩

theorem sweep_facts {c : Ctx} {s : RState} {now : Time} {o : Obs} (h : obsOk c s now o = true) :
    o.sweep.length = (sweepOf c s now).length ∧ o.sweep.map (·.1) = (sweepOf c s now).map (·.1) := by
  have hsw := obsOk_sweep h
  refine ⟨?_, ?_⟩
  · have := congrArg List.length hsw
    simpa using this.symm
  · have := congrArg (List.map (·.1)) hsw
    simpa [List.map_map, Function.comp_def] using this.symm

/-- **C02 on the implementation's own log.**  On an accepted log, the observers the harness read after
*every* call (`size()`, `empty()`, `capacity()`, and the side-effect-free sweep over the key universe
`0 .. nkeys-1`) satisfy:

1. `empty()` is `size() == 0`;
2. the sweep reports at most `size()` keys,
3. in strictly increasing key order (so no key twice), 4. all inside the universe;
5. bounded containers: `size() ≤ capacity()`'s configured value and `capacity()` is that value;
6. ut_map / ut_set: `capacity()` reads 0 (the harness's convention for "unbounded") and right after a call
   that starts with the purge, `size()` is exactly the number of keys the sweep shows (checked by the
   acceptor on the observations themselves);
7. containers without deadlines: the sweep shows exactly `size()` keys, provided every key the log inserts
   is inside the swept universe (`logOk`; a resident key outside it is invisible to the sweep).

(2) and (7) relate the sweep to `size()` through the explaining reference state; in the lazy-TTL caches
the sweep may show fewer keys than `size()` (expired entries stay resident until touched). -/
theorem observers_ok (cfg : Cfg) (nkeys : Nat) (evs : List Event) (m : Nat)
    (h : accept cfg nkeys evs = (none, m)) (hm : m ≤ candLimit) :
    ∀ e ∈ evs,
      e.obs.empty = (e.obs.size == 0) ∧
      e.obs.sweep.length ≤ e.obs.size ∧
      (e.obs.sweep.map (·.1)).Pairwise (· < ·) ∧
      (∀ x ∈ e.obs.sweep, x.1 < nkeys) ∧
      (cfg.kind.bounded = true → e.obs.size ≤ cfg.cap ∧ e.obs.cap = cfg.cap) ∧
      (cfg.kind.bounded = false → e.obs.cap = 0 ∧ (purges e.op = true → e.obs.size = e.obs.sweep.length)) ∧
      (flavorOf cfg.kind = .plain → logOk nkeys evs = true → e.obs.sweep.length = e.obs.size) := by
  have hex : ExplainsD (ctxOf cfg nkeys) { ents := [], ttl := cfg.ttl * msNs } evs :=
    accept_soundD cfg nkeys evs m h hm
  have hflc : (ctxOf cfg nkeys).fl = flavorOf cfg.kind := rfl
  have hcapc : (ctxOf cfg nkeys).cap = cfg.cap := rfl
  have hnk : (ctxOf cfg nkeys).nkeys = nkeys := rfl
  intro e he
  obtain ⟨s', hwf, hobs, hcap⟩ := explainsD_obs hex (fun _ => Nat.zero_le _) e he
  have hsz := obsOk_size hobs
  obtain ⟨hcp, hem⟩ := obsOk_cap hobs
  obtain ⟨hlen, hkeys⟩ := sweep_facts hobs
  rw [hflc, hcapc] at hcp hcap
  refine ⟨?_, ?_, ?_, ?_, ?_, ?_, ?_⟩
  · rw [← hem, ← hsz]
  · rw [hlen, ← hsz]
    unfold sweepOf
    rw [List.length_map]
    exact List.length_filter_le _ _
  · rw [hkeys]
    unfold sweepOf
    rw [List.map_map, List.pairwise_map]
    exact List.Pairwise.filter _ hwf
  · intro x hx
    have : x.1 ∈ e.obs.sweep.map (·.1) := List.mem_map_of_mem hx
    rw [hkeys] at this
    unfold sweepOf at this
    simp only [List.map_map, List.mem_map, List.mem_filter, Function.comp_apply, Bool.and_eq_true,
      decide_eq_true_eq] at this
    obtain ⟨en, ⟨_, _, hlt⟩, hen⟩ := this
    rw [← hen]; exact hlt
  · intro hbd
    have hne : flavorOf cfg.kind ≠ .eager := fun hh => by
      rw [(flavor_eager_iff _).1 hh] at hbd; cases hbd
    rw [if_neg hne] at hcp
    exact ⟨by rw [← hsz]; exact hcap hne, hcp.symm⟩
  · intro hbd
    have he' : flavorOf cfg.kind = .eager := (flavor_eager_iff _).2 hbd
    rw [if_pos he'] at hcp
    refine ⟨hcp.symm, fun hp => ?_⟩
    unfold accept at h
    exact loop_eager_size _ evs _ _ _ _ h hm e he he' hp
  · intro hpl hlog
    have hlog' : ∀ e ∈ evs, opKeysOk (ctxOf cfg nkeys).nkeys e.op = true := by
      rw [hnk]; simpa [logOk, List.all_eq_true] using hlog
    obtain ⟨s2, hobs2, hk2⟩ := explainsD_keys hex List.Pairwise.nil (fun en hen => by cases hen) hlog' e he
    rw [(sweep_facts hobs2).1, ← obsOk_size hobs2]
    unfold sweepOf
    rw [List.length_map, List.filter_eq_self.mpr]
    intro en hen
    have := hk2 en hen
    rw [hnk] at this
    simp [expired, hflc, hpl, hnk, this]


/-! ### C04 in observable terms -/

/-- the event is a write of `(k, v)` with TTL argument `t` that (may have) succeeded: a single
`insert(k, v, allow, t)` that returned `true`, or a range insert listing `(k, v, t)` that reported at least
one success -/
def wroteWith (k : Key) (v : Val) (t : Nat) (e : Event) : Prop :=
  (∃ a, e.op = .insert k v a t ∧ e.out = .bool true) ∨
  (∃ xs a n, e.op = .insertRange xs a ∧ e.out = .nat n ∧ 0 < n ∧ (k, v, t) ∈ xs)

theorem writes_iff {kind : Kind} {ttl : Nat} {k : Key} {v : Val} {d : Time} {e : Event} :
    writes kind ttl k v d e ↔ ∃ t, wroteWith k v t e ∧ dlEv kind ttl e.now t = d := by
  obtain ⟨inst, now, tag, op, out, obs⟩ := e
  simp only [writes, wroteWith]
  constructor
  · intro h
    cases op with
    | insert k' v' a t =>
      cases out with
      | bool b =>
        cases b
        · exact h.elim
        · obtain ⟨rfl, rfl, hd⟩ := h
          exact ⟨t, Or.inl ⟨a, rfl, rfl⟩, hd⟩
      | _ => exact h.elim
    | insertRange xs a =>
      cases out with
      | nat n =>
        obtain ⟨hpos, t, hmem, hd⟩ := h
        exact ⟨t, Or.inr ⟨xs, a, n, rfl, rfl, hpos, hmem⟩, hd⟩
      | _ => exact h.elim
    | _ => cases out <;> first | exact h.elim | (rename_i b; cases b <;> exact h.elim)
  · rintro ⟨t, (⟨a, hop, hout⟩ | ⟨xs, a, n, hop, hout, hpos, hmem⟩), hd⟩
    · subst hop; subst hout
      exact ⟨rfl, rfl, hd⟩
    · subst hop; subst hout
      exact ⟨hpos, t, hmem, hd⟩

@[simp] theorem dlEv_tlru (ttl : Nat) (now : Time) (t : Nat) : dlEv .tlru ttl now t = now + t * msNs := rfl
@[simp] theorem dlEv_utlru (ttl : Nat) (now : Time) (t : Nat) : dlEv .utlru ttl now t = now + ttl := rfl
@[simp] theorem dlEv_utmap (ttl : Nat) (now : Time) (t : Nat) : dlEv .utmap ttl now t = now + ttl := rfl
@[simp] theorem dlEv_utset (ttl : Nat) (now : Time) (t : Nat) : dlEv .utset ttl now t = now + ttl := rfl

/-- only `utlru_cache` has `update_ttl`: elsewhere the configured TTL never changes -/
theorem ttlOf_const {kind : Kind} (hk : kind ≠ .utlru) (ttl0 : Nat) (pre : List Event) :
    ttlOf kind ttl0 pre = ttl0 := by
  unfold ttlOf
  induction pre generalizing ttl0 with
  | nil => rfl
  | cons e es ih =>
    simp only [List.foldl_cons]
    have : ttlStep kind ttl0 e.op = ttl0 := by
      cases hop : e.op <;> simp [ttlStep, hk]
    rw [this]; exact ih ttl0

/-- **C01 on the implementation's own log, readable form (every container).**  A single lookup at event `i`
that reports `v` for `k` has a writer: an earlier event `j < i` that is `insert(k, v, …)` returning `true` or
a range insert listing `(k, v, _)` with at least one success, and no event strictly between them certainly
disturbed `k` (see `touchesO`). -/
theorem find_hit_has_writer (cfg : Cfg) (nkeys : Nat) (evs : List Event) (m : Nat)
    (h : accept cfg nkeys evs = (none, m)) (hm : m ≤ candLimit)
    (i : Nat) (ei : Event) (k : Key) (v : Val)
    (hi : evs[i]? = some ei) (hop : lookKey ei.op = some k) (hv : hitOf ei.out = some v) :
    ∃ j ej t, j < i ∧ evs[j]? = some ej ∧ wroteWith k v t ej ∧
      ∀ j' e', j < j' → j' < i → evs[j']? = some e' → ¬ touches cfg.kind k e' := by
  obtain ⟨j, ej, d, hji, hj, hw, hq, _⟩ := find_hit_written cfg nkeys evs m h hm i ei k v hi hop hv
  obtain ⟨t, hww, _⟩ := writes_iff.1 hw
  exact ⟨j, ej, t, hji, hj, hww, hq⟩

/-- **C04 on the implementation's own log (all four TTL containers)**, in observable terms: on an accepted
log of tlru_cache / utlru_cache / ut_map / ut_set, a single lookup at event `i` that reports `v` for `k` has
a writer event `j < i` (`wroteWith k v t`: TTL argument `t`), not certainly disturbed since, and the
lookup's clock reading is strictly before `dlEv …`: the writer's clock reading plus `t` ms (tlru_cache) or
plus the TTL configured at that point of the log (the others).  No reference state appears. -/
theorem find_hit_fresh (cfg : Cfg) (nkeys : Nat) (evs : List Event) (m : Nat)
    (h : accept cfg nkeys evs = (none, m)) (hm : m ≤ candLimit)
    (hfl : flavorOf cfg.kind ≠ .plain)
    (i : Nat) (ei : Event) (k : Key) (v : Val)
    (hi : evs[i]? = some ei) (hop : lookKey ei.op = some k) (hv : hitOf ei.out = some v) :
    ∃ j ej t, j < i ∧ evs[j]? = some ej ∧ wroteWith k v t ej ∧
      (∀ j' e', j < j' → j' < i → evs[j']? = some e' → ¬ touches cfg.kind k e') ∧
      ei.now < dlEv cfg.kind (ttlOf cfg.kind (cfg.ttl * msNs) (evs.take j)) ej.now t := by
  obtain ⟨j, ej, d, hji, hj, hw, hq, hlt⟩ := find_hit_written cfg nkeys evs m h hm i ei k v hi hop hv
  obtain ⟨t, hww, hd⟩ := writes_iff.1 hw
  exact ⟨j, ej, t, hji, hj, hww, hq, by rw [hd]; exact hlt hfl⟩

/-- **C04, `tlru_cache`, spelled out**: a hit at clock `ei.now` reports a value written by an earlier event
`ej` with TTL argument `t` ms, and `ei.now < ej.now + t ms`: the library never served an entry at or after
its deadline (boundary inclusive: at `now = deadline` the entry is expired). -/
theorem tlru_find_hit_fresh (cfg : Cfg) (hk : cfg.kind = .tlru) (nkeys : Nat) (evs : List Event) (m : Nat)
    (h : accept cfg nkeys evs = (none, m)) (hm : m ≤ candLimit)
    (i : Nat) (ei : Event) (k : Key) (v : Val)
    (hi : evs[i]? = some ei) (hop : lookKey ei.op = some k) (hv : hitOf ei.out = some v) :
    ∃ j ej t, j < i ∧ evs[j]? = some ej ∧ wroteWith k v t ej ∧ ei.now < ej.now + t * msNs := by
  obtain ⟨j, ej, t, hji, hj, hw, _, hlt⟩ :=
    find_hit_fresh cfg nkeys evs m h hm (by rw [hk]; decide) i ei k v hi hop hv
  rw [hk] at hlt
  exact ⟨j, ej, t, hji, hj, hw, hlt⟩

/-- **C04, `ut_map` / `ut_set`, spelled out**: a hit at clock `ei.now` reports a value written by an earlier
event `ej`, and `ei.now < ej.now +` the uniform TTL. -/
theorem utmap_find_hit_fresh (cfg : Cfg) (hk : cfg.kind = .utmap ∨ cfg.kind = .utset) (nkeys : Nat)
    (evs : List Event) (m : Nat)
    (h : accept cfg nkeys evs = (none, m)) (hm : m ≤ candLimit)
    (i : Nat) (ei : Event) (k : Key) (v : Val)
    (hi : evs[i]? = some ei) (hop : lookKey ei.op = some k) (hv : hitOf ei.out = some v) :
    ∃ j ej t, j < i ∧ evs[j]? = some ej ∧ wroteWith k v t ej ∧ ei.now < ej.now + cfg.ttl * msNs := by
  obtain ⟨j, ej, t, hji, hj, hw, _, hlt⟩ :=
    find_hit_fresh cfg nkeys evs m h hm (by rcases hk with hk | hk <;> rw [hk] <;> decide) i ei k v hi hop hv
  rw [ttlOf_const (by rcases hk with hk | hk <;> rw [hk] <;> decide)] at hlt
  refine ⟨j, ej, t, hji, hj, hw, ?_⟩
  rcases hk with hk | hk <;> rw [hk] at hlt <;> exact hlt

/-! ### the accepted log as one run of the reference semantics -/

/-- `tr` is an atom trace of the log: every event contributes the atoms of its call (shape `OpAtoms`),
stamped with its clock reading, and the output these atoms determine is the one recorded -/
inductive LogAtoms : List Event → List (Time × Atom) → Prop
  | nil : LogAtoms [] []
  | cons {e es as x tr} : OpAtoms e.op as x → outOk x e.out = true → LogAtoms es tr →
      LogAtoms (e :: es) (as.map (fun a => (e.now, a)) ++ tr)

theorem explainsD_run {c : Ctx} {s : RState} {evs : List Event} (hex : ExplainsD c s evs) :
    ∃ tr s', LogAtoms evs tr ∧ ARun c.fl c.cap (absR s) tr (absR s') := by
  induction hex with
  | nil s => exact ⟨[], s, .nil, .nil _⟩
  | @cons s s' x e es h1 h2 _ _ ih =>
    obtain ⟨_, _, atoms, hoa, hrun⟩ := h1
    obtain ⟨tr, s'', hl, hr⟩ := ih
    exact ⟨_, s'', .cons hoa.toOpAtoms h2 hl, Spec.ARun.append hrun hr⟩

theorem absR_init (ttl : Nat) : absR { ents := [], ttl := ttl } = A.empty := rfl

/-- **An accepted log is one run of the reference semantics from the empty container**: there is an atom
trace of the log (`LogAtoms`: per event the atoms of its call in the shape of `Core.stepA`, stamped with the
event's clock reading, determining the recorded output) that is an `ARun` from `A.empty`.  Hence every fact
of `Spec/Props.lean` about runs (`lookup_hit_is_last_write`, `size_le_cap_run`, `retention_step`,
`allow_verdict`, `reap_exact`, `coupled_run`, …) holds of what the implementation did on that log. -/
theorem accepted_log_is_run (cfg : Cfg) (nkeys : Nat) (evs : List Event) (m : Nat)
    (h : accept cfg nkeys evs = (none, m)) (hm : m ≤ candLimit) :
    ∃ tr b, LogAtoms evs tr ∧ ARun (flavorOf cfg.kind) cfg.cap A.empty tr b := by
  obtain ⟨tr, s', hl, hr⟩ := explainsD_run (accept_soundD cfg nkeys evs m h hm)
  exact ⟨tr, absR s', hl, hr⟩

/-- **C01/C04 at atom level** (the statement of `Verified.C01`, for the implementation's log instead of a
model's history): in the atom trace of an accepted log, a lookup atom reporting `v` reports the value of
`Spec.lastWrite` of the atoms before it, in the lazy-TTL caches strictly before its deadline.  Here the
history variable ranges over *atoms* (with the per-element verdicts the explanation chose), not over
observed events; `find_hit_written` / `find_hit_is_lastWriteEv` are the event-level forms. -/
theorem accepted_log_C01 (cfg : Cfg) (nkeys : Nat) (evs : List Event) (m : Nat)
    (h : accept cfg nkeys evs = (none, m)) (hm : m ≤ candLimit) :
    ∃ tr, LogAtoms evs tr ∧
      ∀ (p q : List (Time × Atom)) (now : Time) (k : Key) (pk : Bool) (v : Val) (n : Nat),
        tr = p ++ (now, .look k pk (some (v, n))) :: q →
        ∃ d, lastWrite p k = some (v, d) ∧ (flavorOf cfg.kind = .lazy → now < d) := by
  obtain ⟨tr, b, hl, hr⟩ := accepted_log_is_run cfg nkeys evs m h hm
  refine ⟨tr, hl, ?_⟩
  intro p q now k pk v n hsplit
  rw [hsplit] at hr
  exact lookup_hit_is_last_write hr


/-! ## non-vacuity -/

namespace Example

/-- Part A. tlru_cache, capacity 2, keys 0..3: `insert(0, 1, ttl 5 ms)` and `insert(1, 1, ttl 9 ms)` at
clock 0, then `find(0)` at clock 1 ms reports `1`. -/
def logA : List Event :=
  [mkEv 0 (.insert 0 1 .insertOrUpdate 5) (.bool true) 1 2 [(0, 1, 0)],
   mkEv 0 (.insert 1 1 .insertOrUpdate 9) (.bool true) 2 2 [(0, 1, 0), (1, 1, 0)],
   mkEv 1000000 (.find 0 false) (.opt (some 1)) 2 2 [(0, 1, 0), (1, 1, 0)]]

/-- the acceptor accepts it (one candidate at most) -/
theorem logA_accepted : accept { kind := .tlru, cap := 2 } 4 logA = (none, 1) := by rfl

/-- so the hypotheses of the Part A theorems are satisfiable; their conclusions for the hit at event 2: -/
example : ∃ j ej t, j < 2 ∧ logA[j]? = some ej ∧ wroteWith 0 1 t ej ∧ 1000000 < ej.now + t * msNs :=
  tlru_find_hit_fresh { kind := .tlru, cap := 2 } rfl 4 logA 1 logA_accepted (by decide) 2 _ 0 1 rfl rfl rfl

example : lastWriteEv .tlru (logA.take 2) 0 = some 1 :=
  find_hit_is_lastWriteEv { kind := .tlru, cap := 2 } 4 logA 1 logA_accepted (by decide) 2 _ 0 1
    (by simp [logA, mkEv, detO]) rfl rfl rfl

/-- the history variable is executable: the same fact by evaluation -/
example : lastWriteEv .tlru (logA.take 2) 0 = some 1 := by rfl

example : ∀ e ∈ logA, e.obs.size ≤ 2 ∧ e.obs.cap = 2 := fun e he =>
  ((observers_ok { kind := .tlru, cap := 2 } 4 logA 1 logA_accepted (by decide) e he).2.2.2.2.1 rfl)

/-- Part B. lru_cache of capacity 2; thread 0's `insert(1, 10)` overlaps thread 1's `find(1)`, which is
invoked second, responds first and sees the inserted value. -/
def hB : CHistory :=
  [.inv 0 (5, .insert 1 10 .insertOrUpdate 0), .inv 1 (5, .find 1 false), .res 1 (.opt (some 10)), .res 0 (.bool true)]

def hsB : List HOp :=
  [⟨0, 0, 3, 5, .insert 1 10 .insertOrUpdate 0, .bool true⟩, ⟨1, 1, 2, 5, .find 1 false, .opt (some 10)⟩]

theorem hsB_checked : Lin.check { kind := .lru, cap := 2 } hsB = (some true, 2) := by
  have h1 : (Lru.core.step (Rec.init 2) 5 (Op.insert 1 10 .insertOrUpdate 0)).snd = Out.bool true := rfl
  have h2 : (Lru.core.step (Lru.core.step (Rec.init 2) 5 (Op.insert 1 10 Allow.insertOrUpdate 0)).fst 5
      (Op.find 1 false)).snd = Out.opt (some 10) := rfl
  simp [Lin.check, hsB, search, search.tryAll, minimal, removeAt, MState.init, MState.step, List.zipIdx, h1, h2]

theorem hsB_records : Records hB hsB := by
  refine ⟨?_, ?_, ?_⟩
  · intro o ho
    simp only [hsB, List.mem_cons, List.not_mem_nil, or_false] at ho
    rcases ho with rfl | rfl
    · refine ⟨rfl, by decide, rfl, ?_⟩
      intro k e h1 h2 hk
      simp only at h1 h2
      have : k = 1 ∨ k = 2 := by omega
      rcases this with rfl | rfl
      · simp [hB] at hk; subst hk; simp [Conc.Ev.tid]
      · simp [hB] at hk; subst hk; simp [Conc.Ev.tid]
    · refine ⟨rfl, by decide, rfl, ?_⟩
      intro k e h1 h2 hk
      simp only at h1 h2
      omega
  · decide
  · intro i t x hi
    match i, hi with
    | 0, _ => exact ⟨_, List.mem_cons_self .., rfl⟩
    | 1, _ => exact ⟨_, List.mem_cons_of_mem _ (List.mem_cons_self ..), rfl⟩
    | 2, hi => simp [hB] at hi
    | 3, hi => simp [hB] at hi
    | n + 4, hi => simp [hB] at hi

/-- the hypotheses of the Part B theorems are satisfiable, and their conclusions for this history: -/
example : Conc.Linearizable mstep (MState.init { kind := .lru, cap := 2 }) hB :=
  check_linearizable _ hsB 2 hB hsB_checked hsB_records

example : SeqExplained (lruV 2 (by decide)) (MState.init { kind := .lru, cap := 2 }) hB hsB :=
  check_lru { kind := .lru, cap := 2 } rfl (by decide) hsB 2 hB hsB_checked hsB_records

end Example

end Verif.Capstone

#print axioms Verif.Capstone.find_hit_written
#print axioms Verif.Capstone.find_hit_has_writer
#print axioms Verif.Capstone.find_hit_is_lastWriteEv
#print axioms Verif.Capstone.observers_ok
#print axioms Verif.Capstone.find_hit_fresh
#print axioms Verif.Capstone.tlru_find_hit_fresh
#print axioms Verif.Capstone.utmap_find_hit_fresh
#print axioms Verif.Capstone.accepted_log_is_run
#print axioms Verif.Capstone.accepted_log_C01
#print axioms Verif.Capstone.check_linearizable
#print axioms Verif.Capstone.isLin_isLinearization
#print axioms Verif.Capstone.seqRules_of_isLin
#print axioms Verif.Capstone.seqRules_of_isLin_mono
#print axioms Verif.Capstone.check_seqRules
#print axioms Verif.Capstone.check_lru
#print axioms Verif.Capstone.check_mru
#print axioms Verif.Capstone.check_fifo
#print axioms Verif.Capstone.check_rr
#print axioms Verif.Capstone.check_lfu
#print axioms Verif.Capstone.check_lfuda
#print axioms Verif.Capstone.check_tlru
#print axioms Verif.Capstone.check_utlru
#print axioms Verif.Capstone.check_utmap
#print axioms Verif.Capstone.Example.logA_accepted
#print axioms Verif.Capstone.Example.hsB_checked
#print axioms Verif.Capstone.Example.hsB_records
