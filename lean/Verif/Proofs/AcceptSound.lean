import Verif.Accept
import Verif.Spec.Atoms
import Verif.Proofs.AcceptLemmas
/-!
# Soundness of the executable acceptor (`Verif/Accept.lean`)

The acceptor is the judge that compares the implementation's event log with the reference semantics
`AStep` directly (not through an L1 model).  Here: whatever it accepts *is* a run of the reference
semantics — every successor candidate it computes is reached by an `ARun` over the atoms of the call,
with the output it predicts; and if `loop` gets through an event log without a failure and without
giving up (candidate limit), there is a chain of reference states explaining every event's output,
observers and sweep.  So an accepted log is never a missed violation of the reference semantics.
-/
namespace Verif.Accept
open Verif Verif.Proto Verif.Spec

/-- the reference state a candidate stands for -/
def absR (s : RState) : A :=
  ⟨fun k => (getE s.ents k).map (fun e => (e.val, e.dl)), s.ents.length⟩

/-- candidates are kept sorted by key, without duplicates -/
def WF (s : RState) : Prop := s.ents.Pairwise (fun a b => a.key < b.key)

/-- atoms of the elements of a range insert with their individual results; `n` counts the successes -/
inductive InsAtoms (a : Allow) : List (Key × Val × Nat) → List Atom → Nat → Prop
  | nil : InsAtoms a [] [] 0
  | cons {k v t d ok xs as n} : InsAtoms a xs as n →
      InsAtoms a ((k, v, t) :: xs) (.ins k v a d ok :: as) ((if ok then 1 else 0) + n)

inductive LookAtoms (peek : Bool) : List Key → List Atom → List (Option Val) → Prop
  | nil : LookAtoms peek [] [] []
  | cons {k r ks as rs} : LookAtoms peek ks as rs →
      LookAtoms peek (k :: ks) (.look k peek r :: as) (r.map (·.1) :: rs)

inductive DelAtoms : List Key → List Atom → Nat → Prop
  | nil : DelAtoms [] [] 0
  | cons {k ok ks as n} : DelAtoms ks as n →
      DelAtoms (k :: ks) (.del k ok :: as) ((if ok then 1 else 0) + n)

/-- the atoms a public call decomposes into (the shape of `Core.stepA`) and the value-level output they
determine (`none`: left open by the reference semantics) -/
inductive OpAtoms : Op → List Atom → XOut → Prop
  | insert {k v a t d ok} : OpAtoms (.insert k v a t) [.pre, .ins k v a d ok] (some (.bool ok))
  | insertRange {xs a as n} : InsAtoms a xs as n → OpAtoms (.insertRange xs a) (.pre :: as) (some (.nat n))
  | find {k peek r} : OpAtoms (.find k peek) [.pre, .look k peek r] (some (.opt (r.map (·.1))))
  | findRange {ks peek as rs} : LookAtoms peek ks as rs → OpAtoms (.findRange ks peek) (.pre :: as) (some (.opts rs))
  | findCount {k peek r} : OpAtoms (.findCount k peek) [.pre, .look k peek r] (some (.opt (r.map (·.1))))
  | erase {k ok} : OpAtoms (.erase k) [.pre, .del k ok] (some (.bool ok))
  | eraseRange {ks as n} : DelAtoms ks as n → OpAtoms (.eraseRange ks) (.pre :: as) (some (.nat n))
  | clear : OpAtoms .clear [.clear] (some .unit)
  /-- containers without `clear()`: the call does not exist, the harness does nothing -/
  | noClear : OpAtoms .clear [] (some .unit)
  | clean {n} : OpAtoms .clean [.reap n] (some (.nat n))
  | age {n} : OpAtoms .age [.age n] none
  | updateTtl {t} : OpAtoms (.updateTtl t) [.setTtl t] (some .unit)
  | size {n} : OpAtoms .size [.obsSize n] (some (.nat n))
  | empty {b} : OpAtoms .empty [.obsEmpty b] (some (.bool b))
  | capacity {n} : OpAtoms .capacity [.obsCap n] (some (.nat n))

/-- `s'` with predicted output `x` is explained by the reference semantics -/
def Explained (c : Ctx) (s : RState) (now : Time) (op : Op) (s' : RState) (x : XOut) : Prop :=
  ∃ atoms, OpAtoms op atoms x ∧ ARun c.fl c.cap (absR s) (atoms.map (fun a => (now, a))) (absR s')

/-! ## per-primitive soundness -/

theorem ins1_sound (c : Ctx) (s : RState) (now : Time) (k : Key) (v : Val) (a : Allow) (t : Nat)
    (surv : Option (List Key)) (hw : WF s) (s' : RState) (ok : Bool)
    (h : (s', ok) ∈ ins1 c s now k v a t surv) :
    WF s' ∧ s'.ttl = s.ttl ∧ AStep c.fl c.cap (absR s) now (.ins k v a (deadline c s now t) ok) (absR s') := by
  unfold ins1 at h
  cases hg : getE s.ents k with
  | some e =>
    simp only [hg] at h
    have hget : (absR s).get k = some (e.val, e.dl) := by simp [absR, hg]
    by_cases hc : (a.upd || (c.fl == .lazy && a.ins && decide (e.dl ≤ now))) = true
    · rw [if_pos hc] at h
      simp only [List.mem_singleton, Prod.mk.injEq] at h
      obtain ⟨rfl, rfl⟩ := h
      refine ⟨Sorted.put hw _, rfl, ?_⟩
      have hc' : a.upd = true ∨ (c.fl = .lazy ∧ a.ins = true ∧ e.dl ≤ now) := by
        simpa [Bool.or_eq_true, Bool.and_eq_true, and_assoc] using hc
      simp only [AStep, hget]
      rw [if_pos hc']
      refine ⟨by trivial, absOf_put _ _, ?_⟩
      exact length_put_old (Sorted.nodup hw) (e := { key := k, val := v, dl := deadline c s now t }) hg
    · rw [if_neg hc] at h
      simp only [List.mem_singleton, Prod.mk.injEq] at h
      obtain ⟨rfl, rfl⟩ := h
      refine ⟨hw, rfl, ?_⟩
      have hc' : ¬ (a.upd = true ∨ (c.fl = .lazy ∧ a.ins = true ∧ e.dl ≤ now)) := by
        simpa [Bool.or_eq_true, Bool.and_eq_true, and_assoc] using hc
      simp only [AStep, hget]
      rw [if_neg hc']
      exact ⟨by trivial, by trivial⟩
  | none =>
    simp only [hg] at h
    have hget : (absR s).get k = none := by simp [absR, hg]
    by_cases hi : a.ins = true
    · rw [if_pos hi] at h
      by_cases hf : (c.fl != .eager && decide (c.cap ≤ s.ents.length)) = true
      · rw [if_pos hf] at h
        simp only [List.mem_map, Prod.mk.injEq] at h
        obtain ⟨w, hwm, rfl, rfl⟩ := h
        have hwm' : w ∈ s.ents := by
          cases surv with
          | none => exact hwm
          | some sv =>
            simp only at hwm
            split at hwm
            · next w' hfind =>
              rw [List.mem_singleton.mp hwm]
              exact List.mem_of_find?_eq_some hfind
            · exact hwm
        refine ⟨Sorted.put (Sorted.delE hw _) _, rfl, ?_⟩
        have hf' : c.fl ≠ .eager ∧ c.cap ≤ (absR s).size := by
          simpa [Bool.and_eq_true, absR] using hf
        simp only [AStep, hget]
        rw [if_pos hi, if_pos hf']
        refine ⟨by trivial, w.key, absOf_isSome_of_mem hwm', ?_, ?_⟩
        · show (absOf (put (delE s.ents w.key) _)).get = _
          rw [absOf_put, Tlru.absOf_delE]; rfl
        · show (put (delE s.ents w.key) _).length = s.ents.length
          rw [length_put_new]
          · exact length_delE_of_mem (Sorted.nodup hw) (List.mem_map_of_mem (f := (·.key)) hwm')
          · show getE (delE s.ents w.key) k = none
            rw [getE_eq_none_iff, mem_keys_delE]
            exact fun hh => getE_eq_none_iff.mp hg hh.1
      · rw [if_neg hf] at h
        simp only [List.mem_singleton, Prod.mk.injEq] at h
        obtain ⟨rfl, rfl⟩ := h
        refine ⟨Sorted.put hw _, rfl, ?_⟩
        have hf' : ¬ (c.fl ≠ .eager ∧ c.cap ≤ (absR s).size) := by
          simpa [Bool.and_eq_true, absR] using hf
        simp only [AStep, hget]
        rw [if_pos hi, if_neg hf']
        refine ⟨by trivial, absOf_put _ _, ?_⟩
        exact length_put_new (e := { key := k, val := v, dl := deadline c s now t }) hg
    · rw [if_neg hi] at h
      simp only [List.mem_singleton, Prod.mk.injEq] at h
      obtain ⟨rfl, rfl⟩ := h
      refine ⟨hw, rfl, ?_⟩
      simp only [AStep, hget]
      rw [if_neg hi]
      exact ⟨by trivial, by trivial⟩

theorem look1_sound (c : Ctx) (s : RState) (now : Time) (k : Key) (peek : Bool) (hw : WF s) :
    WF (look1 c s now k).1 ∧ (look1 c s now k).1.ttl = s.ttl ∧
    ∃ r : Option (Val × Nat), r.map (·.1) = (look1 c s now k).2 ∧
      AStep c.fl c.cap (absR s) now (.look k peek r) (absR (look1 c s now k).1) := by
  cases hg : getE s.ents k with
  | some e =>
    have hget : (absR s).get k = some (e.val, e.dl) := by simp [absR, hg]
    by_cases hc : (c.fl == .lazy && decide (e.dl ≤ now)) = true
    · have hl : look1 c s now k = ({ s with ents := delE s.ents k }, none) := by
        simp only [look1, hg]; rw [if_pos hc]
      rw [hl]
      have hc' : c.fl = .lazy ∧ e.dl ≤ now := by simpa [Bool.and_eq_true] using hc
      refine ⟨Sorted.delE hw _, rfl, none, rfl, ?_⟩
      simp only [AStep, hget]
      rw [if_pos hc']
      refine ⟨by trivial, Tlru.absOf_delE _ _, ?_⟩
      exact length_delE_of_getE (Sorted.nodup hw) hg
    · have hl : look1 c s now k = (s, some e.val) := by
        simp only [look1, hg]; rw [if_neg hc]
      rw [hl]
      have hc' : ¬ (c.fl = .lazy ∧ e.dl ≤ now) := by simpa [Bool.and_eq_true] using hc
      refine ⟨hw, rfl, some (e.val, 0), rfl, ?_⟩
      simp only [AStep, hget]
      rw [if_neg hc']
      exact ⟨by trivial, by trivial⟩
  | none =>
    have hget : (absR s).get k = none := by simp [absR, hg]
    have hl : look1 c s now k = (s, none) := by simp only [look1, hg]
    rw [hl]
    refine ⟨hw, rfl, none, rfl, ?_⟩
    simp only [AStep, hget]
    exact ⟨by trivial, by trivial⟩

theorem del1_sound (c : Ctx) (s : RState) (now : Time) (k : Key) (hw : WF s) :
    WF (del1 s k).1 ∧ (del1 s k).1.ttl = s.ttl ∧
    AStep c.fl c.cap (absR s) now (.del k (del1 s k).2) (absR (del1 s k).1) := by
  cases hg : getE s.ents k with
  | some e =>
    have hget : (absR s).get k = some (e.val, e.dl) := by simp [absR, hg]
    have hl : del1 s k = ({ s with ents := delE s.ents k }, true) := by simp only [del1, hg]
    rw [hl]
    refine ⟨Sorted.delE hw _, rfl, ?_⟩
    simp only [AStep, hget]
    refine ⟨by trivial, Tlru.absOf_delE _ _, ?_⟩
    exact length_delE_of_getE (Sorted.nodup hw) hg
  | none =>
    have hget : (absR s).get k = none := by simp [absR, hg]
    have hl : del1 s k = (s, false) := by simp only [del1, hg]
    rw [hl]
    refine ⟨hw, rfl, ?_⟩
    simp only [AStep, hget]
    exact ⟨by trivial, by trivial⟩

theorem reap_sound (c : Ctx) (s : RState) (now : Time) (hw : WF s) :
    WF (reap c s now).1 ∧ (reap c s now).1.ttl = s.ttl ∧
    AStep c.fl c.cap (absR s) now (.reap (reap c s now).2) (absR (reap c s now).1) := by
  unfold reap
  by_cases hp : (c.fl == .plain) = true
  · rw [if_pos hp]
    have hp' : c.fl = .plain := by simpa using hp
    refine ⟨hw, rfl, ?_⟩
    simp only [AStep]
    rw [if_pos hp']
    exact ⟨by trivial, by trivial⟩
  · rw [if_neg hp]
    have hp' : ¬ c.fl = .plain := by simpa using hp
    refine ⟨List.Pairwise.filter _ hw, rfl, ?_⟩
    simp only [AStep]
    rw [if_neg hp']
    refine ⟨UtMap.absOf_filter_reap (Sorted.nodup hw) now, ?_⟩
    show (s.ents.filter _).length + (s.ents.length - (s.ents.filter _).length) = s.ents.length
    have := List.length_filter_le (fun e : Entry => decide (now < e.dl)) s.ents
    omega

theorem pre_sound (c : Ctx) (s : RState) (now : Time) (hw : WF s) :
    WF (pre c s now) ∧ (pre c s now).ttl = s.ttl ∧
    AStep c.fl c.cap (absR s) now .pre (absR (pre c s now)) := by
  unfold pre
  by_cases he : (c.fl == .eager) = true
  · rw [if_pos he]
    have he' : c.fl = .eager := by simpa using he
    have hne : ¬ c.fl = .plain := by rw [he']; decide
    obtain ⟨h1, h2, h3⟩ := reap_sound c s now hw
    refine ⟨h1, h2, ?_⟩
    simp only [AStep] at h3 ⊢
    rw [if_neg hne] at h3
    rw [if_pos he']
    exact ⟨h3.1, by have := h3.2; omega⟩
  · rw [if_neg he]
    have he' : ¬ c.fl = .eager := by simpa using he
    refine ⟨hw, rfl, ?_⟩
    simp only [AStep]
    rw [if_neg he']
    trivial

/-! ## per-call soundness -/

theorem lookMany_sound (c : Ctx) (now : Time) (peek : Bool) : ∀ (ks : List Key) (s : RState), WF s →
    WF (lookMany c now ks s).1 ∧ ∃ as, LookAtoms peek ks as (lookMany c now ks s).2 ∧
      ARun c.fl c.cap (absR s) (as.map (fun a => (now, a))) (absR (lookMany c now ks s).1)
  | [], s, hw => ⟨hw, [], .nil, ARun.nil _⟩
  | k :: ks, s, hw => by
    obtain ⟨h1, _, r, hr, hs⟩ := look1_sound c s now k peek hw
    obtain ⟨h2, as, ha, hrun⟩ := lookMany_sound c now peek ks _ h1
    refine ⟨h2, .look k peek r :: as, ?_, ARun.cons hs hrun⟩
    show LookAtoms peek (k :: ks) _ ((look1 c s now k).2 :: _)
    rw [← hr]; exact .cons ha

theorem delMany_sound (c : Ctx) (now : Time) : ∀ (ks : List Key) (s : RState), WF s →
    WF (delMany ks s).1 ∧ ∃ as, DelAtoms ks as (delMany ks s).2 ∧
      ARun c.fl c.cap (absR s) (as.map (fun a => (now, a))) (absR (delMany ks s).1)
  | [], s, hw => ⟨hw, [], .nil, ARun.nil _⟩
  | k :: ks, s, hw => by
    obtain ⟨h1, _, hs⟩ := del1_sound c s now k hw
    obtain ⟨h2, as, ha, hrun⟩ := delMany_sound c now ks _ h1
    exact ⟨h2, .del k (del1 s k).2 :: as, .cons ha, ARun.cons hs hrun⟩

theorem insRaw_sound (c : Ctx) (now : Time) (a : Allow) (surv : Option (List Key)) (k : Key) (v : Val) (t : Nat)
    (acc : List (RState × Nat)) (hw : ∀ p ∈ acc, WF p.1) :
    ∀ q ∈ acc.flatMap (fun (s, n) => (ins1 c s now k v a t surv).map (fun (s', ok) => (s', n + (if ok then 1 else 0)))),
      WF q.1 ∧ ∃ q0 ∈ acc, ∃ d ok, q.2 = q0.2 + (if ok then 1 else 0) ∧
        AStep c.fl c.cap (absR q0.1) now (.ins k v a d ok) (absR q.1) := by
  intro q hq
  rw [List.mem_flatMap] at hq
  obtain ⟨⟨s, n⟩, hmem, hq⟩ := hq
  simp only [List.mem_map] at hq
  obtain ⟨⟨s', ok⟩, hin, rfl⟩ := hq
  obtain ⟨h1, _, h3⟩ := ins1_sound c s now k v a t surv (hw _ hmem) s' ok hin
  exact ⟨h1, (s, n), hmem, _, ok, rfl, h3⟩

theorem insMany_sound (c : Ctx) (now : Time) (a : Allow) (surv : Option (List Key)) :
    ∀ (xs : List (Key × Val × Nat)) (acc r : List (RState × Nat)),
    (∀ p ∈ acc, WF p.1) → insMany c now a surv xs acc = some r →
    ∀ p ∈ r, WF p.1 ∧ ∃ q ∈ acc, ∃ as m, InsAtoms a xs as m ∧ p.2 = q.2 + m ∧
      ARun c.fl c.cap (absR q.1) (as.map (fun x => (now, x))) (absR p.1)
  | [], acc, r, hw, h, p, hp => by
    simp only [insMany, Option.some.injEq] at h
    subst h
    exact ⟨hw p hp, p, hp, [], 0, .nil, rfl, ARun.nil _⟩
  | (k, v, t) :: xs, acc, r, hw, h, p, hp => by
    simp only [insMany] at h
    split at h
    · cases h
    · have hraw := insRaw_sound c now a surv k v t acc hw
      obtain ⟨hp1, q, hq, as, m, hins, hpm, hrun⟩ :=
        insMany_sound c now a surv xs _ r (fun q hq => (hraw q (mem_of_mem_dedup hq)).1) h p hp
      obtain ⟨_, q0, hq0, d, ok, hqn, hstep⟩ := hraw q (mem_of_mem_dedup hq)
      refine ⟨hp1, q0, hq0, .ins k v a d ok :: as, (if ok then 1 else 0) + m, .cons hins, ?_, ARun.cons hstep hrun⟩
      rw [hpm, hqn, Nat.add_assoc]

theorem succ?_sound (c : Ctx) (s : RState) (now : Time) (surv : Option (List Key)) (op : Op)
    (hw : WF s) (l : List (RState × XOut)) (h : succ? c s now surv op = some l)
    (s' : RState) (x : XOut) (hm : (s', x) ∈ l) :
    WF s' ∧ Explained c s now op s' x := by
  obtain ⟨hpw, _, hpre⟩ := pre_sound c s now hw
  cases op with
  | insert k v a t =>
    simp only [succ?, succ, Option.some.injEq] at h
    subst h
    simp only [List.mem_map] at hm
    obtain ⟨⟨s1, ok⟩, hin, heq⟩ := hm
    simp only [Prod.mk.injEq] at heq
    obtain ⟨rfl, rfl⟩ := heq
    obtain ⟨h1, _, h3⟩ := ins1_sound c _ now k v a t none hpw s1 ok hin
    exact ⟨h1, _, .insert, ARun.cons hpre (ARun.single h3)⟩
  | insertRange xs a =>
    simp only [succ?, Option.map_eq_some_iff] at h
    obtain ⟨r, hr, rfl⟩ := h
    simp only [List.mem_map] at hm
    obtain ⟨⟨s1, n⟩, hin, heq⟩ := hm
    simp only [Prod.mk.injEq] at heq
    obtain ⟨rfl, rfl⟩ := heq
    obtain ⟨h1, q, hq, as, m, hins, hpm, hrun⟩ :=
      insMany_sound c now a surv xs _ r
        (fun p hp => by rw [List.mem_singleton.mp hp]; exact hpw) hr _ hin
    rw [List.mem_singleton.mp hq] at hpm hrun
    have hn : n = m := by simpa using hpm
    subst hn
    exact ⟨h1, _, .insertRange hins, ARun.cons hpre hrun⟩
  | find k peek =>
    simp only [succ?, succ, Option.some.injEq] at h
    subst h
    simp only [List.mem_singleton, Prod.mk.injEq] at hm
    obtain ⟨rfl, rfl⟩ := hm
    obtain ⟨h1, _, r, hr, h3⟩ := look1_sound c _ now k peek hpw
    rw [← hr]
    exact ⟨h1, _, .find, ARun.cons hpre (ARun.single h3)⟩
  | findRange ks peek =>
    simp only [succ?, succ, Option.some.injEq] at h
    subst h
    simp only [List.mem_singleton, Prod.mk.injEq] at hm
    obtain ⟨rfl, rfl⟩ := hm
    obtain ⟨h1, as, ha, hrun⟩ := lookMany_sound c now peek ks _ hpw
    exact ⟨h1, _, .findRange ha, ARun.cons hpre hrun⟩
  | findCount k peek =>
    simp only [succ?, succ, Option.some.injEq] at h
    subst h
    simp only [List.mem_singleton, Prod.mk.injEq] at hm
    obtain ⟨rfl, rfl⟩ := hm
    obtain ⟨h1, _, r, hr, h3⟩ := look1_sound c _ now k peek hpw
    rw [← hr]
    exact ⟨h1, _, .findCount, ARun.cons hpre (ARun.single h3)⟩
  | erase k =>
    simp only [succ?, succ, Option.some.injEq] at h
    subst h
    simp only [List.mem_singleton, Prod.mk.injEq] at hm
    obtain ⟨rfl, rfl⟩ := hm
    obtain ⟨h1, _, h3⟩ := del1_sound c _ now k hpw
    exact ⟨h1, _, .erase, ARun.cons hpre (ARun.single h3)⟩
  | eraseRange ks =>
    simp only [succ?, succ, Option.some.injEq] at h
    subst h
    simp only [List.mem_singleton, Prod.mk.injEq] at hm
    obtain ⟨rfl, rfl⟩ := hm
    obtain ⟨h1, as, ha, hrun⟩ := delMany_sound c now ks _ hpw
    exact ⟨h1, _, .eraseRange ha, ARun.cons hpre hrun⟩
  | clear =>
    simp only [succ?, succ, Option.some.injEq] at h
    subst h
    split at hm
    · simp only [List.mem_singleton, Prod.mk.injEq] at hm
      obtain ⟨rfl, rfl⟩ := hm
      refine ⟨List.Pairwise.nil, _, .clear, ARun.single ?_⟩
      simp only [AStep]
      exact ⟨rfl, rfl⟩
    · simp only [List.mem_singleton, Prod.mk.injEq] at hm
      obtain ⟨rfl, rfl⟩ := hm
      exact ⟨hw, _, .noClear, ARun.nil _⟩
  | clean =>
    simp only [succ?, succ, Option.some.injEq] at h
    subst h
    simp only [List.mem_singleton, Prod.mk.injEq] at hm
    obtain ⟨rfl, rfl⟩ := hm
    obtain ⟨h1, _, h3⟩ := reap_sound c s now hw
    exact ⟨h1, _, .clean, ARun.single h3⟩
  | age =>
    simp only [succ?, succ, Option.some.injEq] at h
    subst h
    simp only [List.mem_singleton, Prod.mk.injEq] at hm
    obtain ⟨rfl, rfl⟩ := hm
    refine ⟨hw, _, .age (n := 0), ARun.single ?_⟩
    simp only [AStep]
  | updateTtl t =>
    simp only [succ?, succ, Option.some.injEq] at h
    subst h
    simp only [List.mem_singleton, Prod.mk.injEq] at hm
    obtain ⟨rfl, rfl⟩ := hm
    refine ⟨?_, _, .updateTtl, ARun.single ?_⟩
    · split
      · exact hw
      · exact hw
    · simp only [AStep]
      split <;> rfl
  | size =>
    simp only [succ?, succ, Option.some.injEq] at h
    subst h
    simp only [List.mem_singleton, Prod.mk.injEq] at hm
    obtain ⟨rfl, rfl⟩ := hm
    refine ⟨hw, _, .size, ARun.single ?_⟩
    simp only [AStep]
    exact ⟨rfl, by trivial⟩
  | empty =>
    simp only [succ?, succ, Option.some.injEq] at h
    subst h
    simp only [List.mem_singleton, Prod.mk.injEq] at hm
    obtain ⟨rfl, rfl⟩ := hm
    refine ⟨hw, _, .empty, ARun.single ?_⟩
    simp only [AStep]
    exact ⟨rfl, by trivial⟩
  | capacity =>
    simp only [succ?, succ, Option.some.injEq] at h
    subst h
    simp only [List.mem_singleton, Prod.mk.injEq] at hm
    obtain ⟨rfl, rfl⟩ := hm
    refine ⟨hw, _, .capacity, ARun.single ?_⟩
    simp only [AStep]
    refine ⟨fun hne => ?_, by trivial⟩
    have : ¬ (c.fl == .eager) = true := by simpa using hne
    rw [if_neg this]

/-! ## per-log soundness -/

/-- a chain of reference states explaining every event: the call's atoms are a run of the reference
semantics from the current state, the predicted output is the one the implementation returned, and the
observers and the sweep after the call are those of the state reached -/
inductive Explains (c : Ctx) : RState → List Event → Prop
  | nil (s) : Explains c s []
  | cons {s s' x e es} : Explained c s e.now e.op s' x → outOk x e.out = true → obsOk c s' e.now e.obs = true →
      Explains c s' es → Explains c s (e :: es)

theorem keep_sound (c : Ctx) (cs : List RState) (e : Event) (surv : Option (List Key))
    (css : List (List (RState × XOut))) (hw : ∀ s ∈ cs, WF s)
    (hcss : cs.mapM (fun s => succ? c s e.now surv e.op) = some css) :
    ∀ s' ∈ dedup ((css.flatten.filter (fun (s, x) => outOk x e.out && obsOk c s e.now e.obs)).map (·.1)),
      WF s' ∧ ∃ s ∈ cs, ∃ x, Explained c s e.now e.op s' x ∧ outOk x e.out = true ∧
        obsOk c s' e.now e.obs = true := by
  intro s' hs'
  have h1 := mem_of_mem_dedup hs'
  rw [List.mem_map] at h1
  obtain ⟨⟨s1, x⟩, hf, rfl⟩ := h1
  rw [List.mem_filter] at hf
  obtain ⟨hfl, hok⟩ := hf
  simp only [Bool.and_eq_true] at hok
  rw [List.mem_flatten] at hfl
  obtain ⟨li, hli, hin⟩ := hfl
  obtain ⟨s, hs, hsucc⟩ := mapM_option_mem hcss li hli
  obtain ⟨h2, h3⟩ := succ?_sound c s e.now surv e.op (hw s hs) li hsucc s1 x hin
  exact ⟨h2, s, hs, x, h3, hok.1, hok.2⟩

/-- the survivors hint of `loop` -/
def survOf (c : Ctx) (e : Event) : Option (List Key) :=
  if c.fl == .plain then some (e.obs.sweep.map (·.1)) else none

/-- the filtered, deduplicated successors of `loop` -/
def keepOf (c : Ctx) (e : Event) (css : List (List (RState × XOut))) : List RState :=
  dedup ((css.flatten.filter (fun (s, x) => outOk x e.out && obsOk c s e.now e.obs)).map (·.1))

/-- the quick path of `loop` -/
def quickOf (c : Ctx) (cs : List RState) (e : Event) (surv : Option (List Key)) : List RState :=
  match surv with
  | some _ => (match cs.mapM (fun s => succ? c s e.now surv e.op) with
    | some css => keepOf c e css
    | none => [])
  | none => []

theorem loop_cons (c : Ctx) (cs : List RState) (idx : Nat) (e : Event) (es : List Event) (mx : Nat) :
    loop c cs idx (e :: es) mx =
      if c.fl == .eager && purges e.op && e.obs.size != e.obs.sweep.length then
        (some ⟨idx, ["C02"], s!"eager-size-live size={e.obs.size} live={e.obs.sweep.length}"⟩, mx)
      else if !(quickOf c cs e (survOf c e)).isEmpty then
        loop c (quickOf c cs e (survOf c e)) (idx + 1) es (max mx (quickOf c cs e (survOf c e)).length)
      else
        match cs.mapM (fun s => succ? c s e.now none e.op) with
        | none => (none, candLimit + 1)
        | some css =>
          if (keepOf c e css).isEmpty then
            (some ⟨idx, (classify c e css.flatten).1, (classify c e css.flatten).2⟩, mx)
          else if (keepOf c e css).length > candLimit then (none, (keepOf c e css).length)
          else loop c (keepOf c e css) (idx + 1) es (max mx (keepOf c e css).length) := by
  rw [loop]
  rfl

theorem quick_sound (c : Ctx) (cs : List RState) (e : Event) (surv : Option (List Key))
    (hw : ∀ s ∈ cs, WF s) :
    ∀ s' ∈ quickOf c cs e surv,
      WF s' ∧ ∃ s ∈ cs, ∃ x, Explained c s e.now e.op s' x ∧ outOk x e.out = true ∧
        obsOk c s' e.now e.obs = true := by
  intro s' hs'
  unfold quickOf at hs'
  cases surv with
  | none => cases hs'
  | some sv =>
    simp only at hs'
    cases hq : cs.mapM (fun s => succ? c s e.now (some sv) e.op) with
    | none => rw [hq] at hs'; cases hs'
    | some css =>
      rw [hq] at hs'
      exact keep_sound c cs e (some sv) css hw hq s' hs'

theorem loop_sound (c : Ctx) (cs : List RState) (idx : Nat) (evs : List Event) (mx m : Nat)
    (hw : ∀ s ∈ cs, WF s) (hne : cs ≠ [])
    (h : loop c cs idx evs mx = (none, m)) (hm : m ≤ candLimit) :
    ∃ s ∈ cs, Explains c s evs := by
  induction evs generalizing cs idx mx m with
  | nil =>
    obtain ⟨s, hs⟩ := List.exists_mem_of_ne_nil cs hne
    exact ⟨s, hs, .nil s⟩
  | cons e es ih =>
    rw [loop_cons] at h
    have step : ∀ (keep : List RState) (idx' mx' : Nat), keep ≠ [] →
        (∀ s' ∈ keep, WF s' ∧ ∃ s ∈ cs, ∃ x, Explained c s e.now e.op s' x ∧ outOk x e.out = true ∧
          obsOk c s' e.now e.obs = true) →
        loop c keep idx' es mx' = (none, m) → ∃ s ∈ cs, Explains c s (e :: es) := by
      intro keep idx' mx' hk hs hl
      obtain ⟨s', hs'm, hex⟩ := ih keep idx' mx' m (fun s' h' => (hs s' h').1) hk hl hm
      obtain ⟨_, s, hsm, x, h1, h2, h3⟩ := hs s' hs'm
      exact ⟨s, hsm, .cons h1 h2 h3 hex⟩
    split at h
    · cases h
    · split at h
      · next hq =>
        refine step _ _ _ ?_ (quick_sound c cs e _ hw) h
        intro hnil
        rw [hnil] at hq
        simp at hq
      · split at h
        · next hnone =>
          have : m = candLimit + 1 := by
            have := congrArg Prod.snd h
            exact this.symm
          omega
        · next css hcss =>
          split at h
          · cases h
          · next hkne =>
            split at h
            · next hgt =>
              have : m = (keepOf c e css).length := (congrArg Prod.snd h).symm
              omega
            · refine step _ _ _ ?_ (keep_sound c cs e none css hw hcss) h
              intro hnil
              apply hkne
              show (keepOf c e css).isEmpty = true
              unfold keepOf
              rw [hnil]; rfl

/-- An accepted log is a run of the reference semantics from the empty container. -/
theorem accept_sound (cfg : Cfg) (nkeys : Nat) (evs : List Event) (m : Nat)
    (h : accept cfg nkeys evs = (none, m)) (hm : m ≤ candLimit) :
    Explains { kind := cfg.kind, fl := flavorOf cfg.kind, cap := cfg.cap, nkeys := nkeys }
      { ents := [], ttl := cfg.ttl * msNs } evs := by
  unfold accept at h
  obtain ⟨s, hs, hex⟩ := loop_sound _ _ _ _ _ _
    (fun s hs => by rw [List.mem_singleton.mp hs]; exact List.Pairwise.nil)
    (List.cons_ne_nil _ _) h hm
  rw [List.mem_singleton.mp hs] at hex
  exact hex

end Verif.Accept

