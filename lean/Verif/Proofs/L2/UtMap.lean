import Verif.Concrete.UtMap
import Verif.Model.Ttl
import Verif.Proofs.Refine.UtMap
/-!
# L2 `ut_map` / `ut_set`: no undefined behaviour on any history, refinement of the L1 model
-/
namespace Verif.L2.UtMap
open Verif

/-- the L1 state: the ttl list in order, each node with the key and value of the map node it points to -/
def abs (s : UState) : UtMapState :=
  { ttl := s.ttl,
    tq := s.tq.map (fun u =>
      match s.mapn.find? (fun m => m.id == u.mapIt) with
      | some m => { key := m.key, val := m.val, dl := u.expire }
      | none => { key := 0, val := 0, dl := u.expire }) }

/-! ## generic facts about lists whose elements carry a duplicate-free `Nat` label -/

section
variable {α : Type} (g : α → Nat)

theorem inj_of_nodup {l : List α} (h : (l.map g).Nodup) {x y : α} (hx : x ∈ l) (hy : y ∈ l)
    (e : g x = g y) : x = y := by
  induction l with
  | nil => cases hx
  | cons a t ih =>
    rw [List.map_cons, List.nodup_cons] at h
    rcases List.mem_cons.mp hx with hx' | hx'
    · rcases List.mem_cons.mp hy with hy' | hy'
      · rw [hx', hy']
      · exfalso; apply h.1; rw [← hx', e]; exact List.mem_map_of_mem hy'
    · rcases List.mem_cons.mp hy with hy' | hy'
      · exfalso; apply h.1; rw [← hy', ← e]; exact List.mem_map_of_mem hx'
      · exact ih h.2 hx' hy'

theorem find?_of_nodup {l : List α} (h : (l.map g).Nodup) {x : α} (hx : x ∈ l) {i : Nat} (hi : g x = i) :
    l.find? (fun y => g y == i) = some x := by
  cases hf : l.find? (fun y => g y == i) with
  | none =>
    have := List.find?_eq_none.mp hf x hx
    simp [hi] at this
  | some y =>
    have hy := List.mem_of_find?_eq_some hf
    have hp := List.find?_some hf
    simp only [beq_iff_eq] at hp
    rw [inj_of_nodup g h hy hx (hp.trans hi.symm)]

theorem mem_filter_ne {l : List α} {i : Nat} {x : α} :
    x ∈ l.filter (fun y => !(g y == i)) ↔ x ∈ l ∧ g x ≠ i := by
  simp

theorem filter_ne_self {l : List α} {i : Nat} (h : ∀ y ∈ l, g y ≠ i) :
    l.filter (fun y => !(g y == i)) = l := by
  rw [List.filter_eq_self]
  intro y hy
  simp [h y hy]

theorem length_filter_ne {l : List α} (h : (l.map g).Nodup) {x : α} (hx : x ∈ l) {i : Nat} (hi : g x = i) :
    (l.filter (fun y => !(g y == i))).length + 1 = l.length := by
  induction l with
  | nil => cases hx
  | cons a t ih =>
    rw [List.map_cons, List.nodup_cons] at h
    by_cases ha : g a = i
    · have : t.filter (fun y => !(g y == i)) = t := by
        apply filter_ne_self
        intro y hy e
        apply h.1; rw [ha, ← e]; exact List.mem_map_of_mem hy
      simp [ha, this]
    · have hx' : x ∈ t := by
        rcases List.mem_cons.mp hx with e | e
        · exact absurd (e ▸ hi) ha
        · exact e
      have := ih h.2 hx'
      simp [ha, this]

theorem nodup_filter {l : List α} (h : (l.map g).Nodup) (p : α → Bool) : ((l.filter p).map g).Nodup :=
  (List.Sublist.map g List.filter_sublist).nodup h

end

/-! ## the invariant -/

/-- the entry the abstraction makes of a ttl node -/
def entOf (ms : List MNode) (u : UNode) : Entry :=
  match ms.find? (fun m => m.id == u.mapIt) with
  | some m => { key := m.key, val := m.val, dl := u.expire }
  | none => { key := 0, val := 0, dl := u.expire }

theorem abs_eq (s : UState) : abs s = { ttl := s.ttl, tq := s.tq.map (entOf s.mapn) } := rfl

theorem entOf_dl (ms : List MNode) (u : UNode) : (entOf ms u).dl = u.expire := by
  unfold entOf; split <;> rfl

structure Good (s : UState) : Prop where
  ub : s.ub = false
  idM : (s.mapn.map MNode.id).Nodup
  keyM : (s.mapn.map MNode.key).Nodup
  idU : (s.tq.map UNode.id).Nodup
  ltM : ∀ m ∈ s.mapn, m.id < s.nextM
  ltU : ∀ u ∈ s.tq, u.id < s.nextU
  fwd : ∀ m ∈ s.mapn, ∃ u ∈ s.tq, u.id = m.ttlIt ∧ u.mapIt = m.id
  bwd : ∀ u ∈ s.tq, ∃ m ∈ s.mapn, m.id = u.mapIt ∧ m.ttlIt = u.id
  len : s.mapn.length = s.tq.length

theorem good_init (ttlMs : Nat) : Good (init ttlMs) := by
  constructor <;> simp [init]

variable {s : UState}

theorem entOf_of' {ms : List MNode} (hn : (ms.map MNode.id).Nodup) {m : MNode} (hm : m ∈ ms) {u : UNode}
    (hu : m.id = u.mapIt) : entOf ms u = { key := m.key, val := m.val, dl := u.expire } := by
  unfold entOf
  rw [find?_of_nodup MNode.id hn hm hu]

theorem entOf_of (h : Good s) {m : MNode} (hm : m ∈ s.mapn) {u : UNode} (hu : m.id = u.mapIt) :
    entOf s.mapn u = { key := m.key, val := m.val, dl := u.expire } :=
  entOf_of' h.idM hm hu

/-! ## removing a linked pair of nodes -/

def rm (s : UState) (mi ui : Nat) : UState :=
  { s with mapn := s.mapn.filter (fun m => !(m.id == mi)), tq := s.tq.filter (fun x => !(x.id == ui)) }

theorem Good.rm (h : Good s) {m : MNode} {u : UNode} (hm : m ∈ s.mapn) (hu : u ∈ s.tq)
    (h1 : u.id = m.ttlIt) (h2 : u.mapIt = m.id) : Good (rm s m.id u.id) where
  ub := h.ub
  idM := nodup_filter _ h.idM _
  keyM := nodup_filter _ h.keyM _
  idU := nodup_filter _ h.idU _
  ltM := fun x hx => h.ltM x (List.mem_filter.mp hx).1
  ltU := fun x hx => h.ltU x (List.mem_filter.mp hx).1
  fwd := by
    intro x hx
    have ⟨hx1, hx2⟩ := (mem_filter_ne MNode.id).mp hx
    obtain ⟨y, hy, e1, e2⟩ := h.fwd x hx1
    refine ⟨y, (mem_filter_ne UNode.id).mpr ⟨hy, ?_⟩, e1, e2⟩
    intro e
    have := inj_of_nodup UNode.id h.idU hy hu e
    subst this
    exact hx2 (e2.symm.trans h2)
  bwd := by
    intro y hy
    have ⟨hy1, hy2⟩ := (mem_filter_ne UNode.id).mp hy
    obtain ⟨x, hx, e1, e2⟩ := h.bwd y hy1
    refine ⟨x, (mem_filter_ne MNode.id).mpr ⟨hx, ?_⟩, e1, e2⟩
    intro e
    have := inj_of_nodup MNode.id h.idM hx hm e
    subst this
    exact hy2 (e2.symm.trans h1.symm)
  len := by
    have a := length_filter_ne MNode.id h.idM hm rfl
    have b := length_filter_ne UNode.id h.idU hu rfl
    have := h.len
    show (s.mapn.filter _).length = (s.tq.filter _).length
    omega

/-- the other ttl nodes keep their entries when a linked pair goes -/
theorem entOf_rm (h : Good s) {m : MNode} {u : UNode} (hm : m ∈ s.mapn)
    (h1 : u.id = m.ttlIt) {x : UNode} (hx : x ∈ s.tq) (hne : x.id ≠ u.id) :
    entOf (s.mapn.filter (fun y => !(y.id == m.id))) x = entOf s.mapn x := by
  obtain ⟨m', hm', e1, e2⟩ := h.bwd x hx
  have hne' : m'.id ≠ m.id := by
    intro e
    have := inj_of_nodup MNode.id h.idM hm' hm e
    subst this
    exact hne (e2.symm.trans h1.symm)
  rw [entOf_of h hm' e1,
    entOf_of' (nodup_filter _ h.idM _) ((mem_filter_ne MNode.id).mpr ⟨hm', hne'⟩) e1]

/-! ## `do_prune` -/

theorem purge_cons_le {e : Entry} {t : List Entry} {now : Time} (h : e.dl ≤ now) :
    Verif.UtMap.purge (e :: t) now = Verif.UtMap.purge t now := by
  simp [Verif.UtMap.purge, h]

theorem purge_cons_gt {e : Entry} {t : List Entry} {now : Time} (h : ¬ e.dl ≤ now) :
    Verif.UtMap.purge (e :: t) now = e :: t := by
  simp [Verif.UtMap.purge, h]

theorem purged_cons_le {e : Entry} {t : List Entry} {now : Time} (h : e.dl ≤ now) :
    Verif.UtMap.purged (e :: t) now = Verif.UtMap.purged t now + 1 := by
  simp [Verif.UtMap.purged, h]

theorem purged_cons_gt {e : Entry} {t : List Entry} {now : Time} (h : ¬ e.dl ≤ now) :
    Verif.UtMap.purged (e :: t) now = 0 := by
  simp [Verif.UtMap.purged, h]

theorem pruneLoop_spec (now : Time) : ∀ (l : List UNode) (s : UState) (n : Nat), Good s → s.tq = l →
    Good (pruneLoop now l s n).1 ∧
    abs (pruneLoop now l s n).1 = { ttl := s.ttl, tq := Verif.UtMap.purge (abs s).tq now } ∧
    (pruneLoop now l s n).2 = n + Verif.UtMap.purged (abs s).tq now := by
  intro l
  induction l with
  | nil =>
    intro s n h e
    have habs : abs s = { ttl := s.ttl, tq := [] } := by rw [abs_eq, e]; rfl
    rw [habs]
    exact ⟨h, habs, rfl⟩
  | cons u rest ih =>
    intro s n h e
    have hu : u ∈ s.tq := by rw [e]; simp
    obtain ⟨m, hm, e1, e2⟩ := h.bwd u hu
    have habs : (abs s).tq = entOf s.mapn u :: rest.map (entOf s.mapn) := by rw [abs_eq, e]; rfl
    by_cases hexp : u.expire ≤ now
    · have hany : s.mapn.any (fun m => m.id == u.mapIt) = true := by
        rw [List.any_eq_true]; exact ⟨m, hm, by simp [e1]⟩
      have hg := h.rm hm hu e2.symm e1.symm
      have hnd := h.idU
      rw [e, List.map_cons, List.nodup_cons] at hnd
      have htq : (rm s m.id u.id).tq = rest := by
        simp only [rm, e, List.filter_cons, beq_self_eq_true, Bool.not_true, Bool.false_eq_true, if_false]
        apply filter_ne_self
        intro y hy ey
        apply hnd.1; rw [← ey]; exact List.mem_map_of_mem hy
      have habs' : (abs (rm s m.id u.id)).tq = rest.map (entOf s.mapn) := by
        rw [abs_eq]
        show (rm s m.id u.id).tq.map (entOf (s.mapn.filter (fun y => !(y.id == m.id)))) = _
        rw [htq]
        apply List.map_congr_left
        intro x hx
        apply entOf_rm h hm e2.symm (by rw [e]; exact List.mem_cons_of_mem _ hx)
        intro ex
        apply hnd.1; rw [← ex]; exact List.mem_map_of_mem hx
      have hstep : pruneLoop now (u :: rest) s n = pruneLoop now rest (rm s m.id u.id) (n + 1) := by
        simp only [pruneLoop, hexp, hany, if_true, rm, e1]
      obtain ⟨g1, g2, g3⟩ := ih (rm s m.id u.id) (n + 1) hg htq
      have hdl : (entOf s.mapn u).dl ≤ now := by rw [entOf_dl]; exact hexp
      rw [hstep, habs, purge_cons_le hdl, purged_cons_le hdl, ← habs']
      refine ⟨g1, g2, ?_⟩
      rw [g3]; omega
    · have hstep : pruneLoop now (u :: rest) s n = (s, n) := by
        simp only [pruneLoop, hexp, if_false]
      have hdl : ¬ (entOf s.mapn u).dl ≤ now := by rw [entOf_dl]; exact hexp
      rw [hstep, habs, purge_cons_gt hdl, purged_cons_gt hdl, ← habs]
      exact ⟨h, rfl, rfl⟩

theorem prune_spec (h : Good s) (now : Time) :
    Good (prune s now).1 ∧
    abs (prune s now).1 = { ttl := s.ttl, tq := Verif.UtMap.purge (abs s).tq now } ∧
    (prune s now).2 = Verif.UtMap.purged (abs s).tq now := by
  have := pruneLoop_spec now s.tq s 0 h rfl
  simp only [prune, h.ub, Bool.false_eq_true, if_false]
  simpa using this

/-! ## lookups -/

theorem findNode_some {k : Key} {m : MNode} (hf : findNode s k = some m) : m ∈ s.mapn ∧ m.key = k := by
  refine ⟨List.mem_of_find?_eq_some hf, ?_⟩
  have := List.find?_some hf
  simpa using this

theorem findNode_none {k : Key} (hf : findNode s k = none) : ∀ m ∈ s.mapn, m.key ≠ k := by
  intro m hm
  have := List.find?_eq_none.mp hf m hm
  simpa using this

theorem getE_abs_none (h : Good s) {k : Key} (hf : findNode s k = none) : getE (abs s).tq k = none := by
  rw [getE_eq_none_iff, abs_eq]
  intro hmem
  obtain ⟨e, he, hk⟩ := List.mem_map.mp hmem
  obtain ⟨x, hx, rfl⟩ := List.mem_map.mp he
  obtain ⟨m, hm, e1, e2⟩ := h.bwd x hx
  rw [entOf_of h hm e1] at hk
  exact findNode_none hf m hm hk

theorem getE_abs_some (h : Good s) {k : Key} {m : MNode} (hf : findNode s k = some m) {u : UNode}
    (hu : u ∈ s.tq) (h1 : u.id = m.ttlIt) (h2 : u.mapIt = m.id) :
    getE (abs s).tq k = some { key := k, val := m.val, dl := u.expire } := by
  obtain ⟨hm, hk⟩ := findNode_some hf
  cases hg : getE (abs s).tq k with
  | none =>
    rw [getE_eq_none_iff] at hg
    exfalso; apply hg
    rw [abs_eq]
    exact List.mem_map.mpr ⟨entOf s.mapn u, List.mem_map_of_mem hu, by rw [entOf_of h hm h2.symm]; exact hk⟩
  | some e =>
    have hmem := getE_mem hg
    have hkey := getE_key hg
    rw [abs_eq] at hmem
    obtain ⟨x, hx, rfl⟩ := List.mem_map.mp hmem
    obtain ⟨m', hm', e1, e2⟩ := h.bwd x hx
    rw [entOf_of h hm' e1] at hkey ⊢
    have hmm : m' = m := inj_of_nodup MNode.key h.keyM hm' hm (hkey.trans hk.symm)
    subst hmm
    have hxu : x = u := inj_of_nodup UNode.id h.idU hx hu (e2.symm.trans h1.symm)
    subst hxu
    rw [hk]

/-- removing a ttl node removes exactly the entry with its map node's key -/
theorem filter_abs (h : Good s) {m : MNode} {u : UNode} (hm : m ∈ s.mapn) (hu : u ∈ s.tq)
    (h1 : u.id = m.ttlIt) (h2 : u.mapIt = m.id) :
    (s.tq.filter (fun x => !(x.id == u.id))).map (entOf s.mapn) = delE (s.tq.map (entOf s.mapn)) m.key := by
  unfold delE
  rw [List.filter_map]
  congr 1
  apply List.filter_congr
  intro x hx
  obtain ⟨m', hm', e1, e2⟩ := h.bwd x hx
  simp only [Function.comp, entOf_of h hm' e1]
  by_cases hk : m'.key = m.key
  · have hmm := inj_of_nodup MNode.key h.keyM hm' hm hk
    subst hmm
    have : x.id = u.id := e2.symm.trans h1.symm
    simp [this]
  · have : x.id ≠ u.id := by
      intro e
      have hxu := inj_of_nodup UNode.id h.idU hx hu e
      subst hxu
      have hmm := inj_of_nodup MNode.id h.idM hm' hm (e1.trans h2)
      subst hmm
      exact hk rfl
    simp [hk, this]

theorem abs_rm (h : Good s) {m : MNode} {u : UNode} (hm : m ∈ s.mapn) (hu : u ∈ s.tq)
    (h1 : u.id = m.ttlIt) (h2 : u.mapIt = m.id) :
    abs (rm s m.id u.id) = { ttl := s.ttl, tq := delE (abs s).tq m.key } := by
  rw [abs_eq, abs_eq]
  show UtMapState.mk s.ttl ((s.tq.filter (fun x => !(x.id == u.id))).map
    (entOf (s.mapn.filter (fun y => !(y.id == m.id))))) = _
  congr 1
  rw [← filter_abs h hm hu h1 h2]
  apply List.map_congr_left
  intro x hx
  have ⟨hx1, hx2⟩ := (mem_filter_ne UNode.id).mp hx
  exact entOf_rm h hm h1 hx1 hx2

/-! ## `erase` -/

theorem erase1_spec (h : Good s) (k : Key) :
    Good (erase1 s k).1 ∧ abs (erase1 s k).1 = (Verif.UtMap.erase1 (abs s) k).1 ∧
    (erase1 s k).2 = (Verif.UtMap.erase1 (abs s) k).2 := by
  cases hf : findNode s k with
  | none =>
    have e1 : erase1 s k = (s, false) := by simp only [erase1, h.ub, hf, Bool.false_eq_true, if_false]
    have e2 : Verif.UtMap.erase1 (abs s) k = (abs s, false) := by
      simp only [Verif.UtMap.erase1, getE_abs_none h hf]
    rw [e1, e2]
    exact ⟨h, rfl, rfl⟩
  | some m =>
    obtain ⟨hm, hk⟩ := findNode_some hf
    obtain ⟨u, hu, h1, h2⟩ := h.fwd m hm
    have hany : s.tq.any (fun u => u.id == m.ttlIt) = true := by
      rw [List.any_eq_true]; exact ⟨u, hu, by simp [h1]⟩
    have e1 : erase1 s k = (rm s m.id u.id, true) := by
      simp only [erase1, h.ub, hf, hany, Bool.false_eq_true, if_false, if_true, rm, h1]
    have e2 : Verif.UtMap.erase1 (abs s) k = ({ ttl := s.ttl, tq := delE (abs s).tq k }, true) := by
      simp only [Verif.UtMap.erase1, getE_abs_some h hf hu h1 h2]
      rfl
    rw [e1, e2, ← hk]
    exact ⟨h.rm hm hu h1 h2, abs_rm h hm hu h1 h2, rfl⟩

/-! ## `find` -/

theorem find1_spec (h : Good s) (k : Key) :
    (find1 s k).1 = s ∧ (find1 s k).2 = (Verif.UtMap.find1 (abs s) k).2 := by
  have e1 : find1 s k = (s, (findNode s k).map (fun m => (m.val, 0))) := by
    simp only [find1, h.ub, Bool.false_eq_true, if_false]
  rw [e1]
  refine ⟨rfl, ?_⟩
  simp only [Verif.UtMap.find1]
  cases hf : findNode s k with
  | none => rw [getE_abs_none h hf]; rfl
  | some m =>
    obtain ⟨hm, hk⟩ := findNode_some hf
    obtain ⟨u, hu, h1, h2⟩ := h.fwd m hm
    rw [getE_abs_some h hf hu h1 h2]; rfl

/-! ## `insert`, updating branch -/

theorem nodup_snoc {l : List Nat} (h : l.Nodup) {x : Nat} (hx : x ∉ l) : (l ++ [x]).Nodup := by
  rw [List.nodup_append]
  refine ⟨h, by simp, ?_⟩
  intro a ha b hb
  simp only [List.mem_cons, List.not_mem_nil, or_false] at hb
  subst hb
  intro e; subst e; exact hx ha

/-- `do_update`: rewrite the value in place -/
def setVal (m : MNode) (v : Val) (x : MNode) : MNode := if x.id == m.id then { x with val := v } else x

theorem setVal_id (m : MNode) (v : Val) (x : MNode) : (setVal m v x).id = x.id := by
  unfold setVal; split <;> rfl
theorem setVal_key (m : MNode) (v : Val) (x : MNode) : (setVal m v x).key = x.key := by
  unfold setVal; split <;> rfl
theorem setVal_ttlIt (m : MNode) (v : Val) (x : MNode) : (setVal m v x).ttlIt = x.ttlIt := by
  unfold setVal; split <;> rfl
theorem setVal_ne {m : MNode} (v : Val) {x : MNode} (h : x.id ≠ m.id) : setVal m v x = x := by
  unfold setVal; simp [h]
theorem setVal_self (m : MNode) (v : Val) : setVal m v m = { m with val := v } := by
  unfold setVal; simp

def upd (s : UState) (m : MNode) (u : UNode) (v : Val) (d : Time) : UState :=
  { s with mapn := s.mapn.map (setVal m v),
           tq := s.tq.filter (fun x => !(x.id == u.id)) ++ [{ u with expire := d }] }

theorem Good.upd (h : Good s) {m : MNode} {u : UNode} (hm : m ∈ s.mapn) (hu : u ∈ s.tq)
    (h1 : u.id = m.ttlIt) (h2 : u.mapIt = m.id) (v : Val) (d : Time) : Good (upd s m u v d) where
  ub := h.ub
  idM := by
    show ((s.mapn.map (setVal m v)).map MNode.id).Nodup
    rw [List.map_map]
    have : MNode.id ∘ setVal m v = MNode.id := funext (setVal_id m v)
    rw [this]; exact h.idM
  keyM := by
    show ((s.mapn.map (setVal m v)).map MNode.key).Nodup
    rw [List.map_map]
    have : MNode.key ∘ setVal m v = MNode.key := funext (setVal_key m v)
    rw [this]; exact h.keyM
  idU := by
    show ((s.tq.filter (fun x : UNode => !(x.id == u.id)) ++ [{ u with expire := d }]).map UNode.id).Nodup
    rw [List.map_append]
    apply nodup_snoc (nodup_filter _ h.idU _)
    intro hmem
    obtain ⟨y, hy, e⟩ := List.mem_map.mp hmem
    exact ((mem_filter_ne UNode.id).mp hy).2 e
  ltM := by
    intro x hx
    obtain ⟨x0, hx0, rfl⟩ := List.mem_map.mp hx
    rw [setVal_id]; exact h.ltM x0 hx0
  ltU := by
    intro y hy
    rcases List.mem_append.mp hy with hy | hy
    · exact h.ltU y (List.mem_filter.mp hy).1
    · simp only [List.mem_cons, List.not_mem_nil, or_false] at hy
      subst hy; exact h.ltU u hu
  fwd := by
    intro x hx
    obtain ⟨x0, hx0, rfl⟩ := List.mem_map.mp hx
    obtain ⟨y, hy, e1, e2⟩ := h.fwd x0 hx0
    rw [setVal_id, setVal_ttlIt]
    by_cases hyu : y.id = u.id
    · have := inj_of_nodup UNode.id h.idU hy hu hyu
      subst this
      exact ⟨{ y with expire := d }, List.mem_append_right _ (by simp), e1, e2⟩
    · exact ⟨y, List.mem_append_left _ ((mem_filter_ne UNode.id).mpr ⟨hy, hyu⟩), e1, e2⟩
  bwd := by
    intro y hy
    rcases List.mem_append.mp hy with hy | hy
    · obtain ⟨x, hx, e1, e2⟩ := h.bwd y (List.mem_filter.mp hy).1
      exact ⟨setVal m v x, List.mem_map_of_mem hx, by rw [setVal_id]; exact e1, by rw [setVal_ttlIt]; exact e2⟩
    · simp only [List.mem_cons, List.not_mem_nil, or_false] at hy
      subst hy
      exact ⟨setVal m v m, List.mem_map_of_mem hm, by rw [setVal_id]; exact h2.symm,
        by rw [setVal_ttlIt]; exact h1.symm⟩
  len := by
    have b := length_filter_ne UNode.id h.idU hu rfl
    have := h.len
    show (s.mapn.map _).length = (s.tq.filter _ ++ [_]).length
    rw [List.length_map, List.length_append, List.length_singleton]
    omega

theorem abs_upd (h : Good s) {m : MNode} {u : UNode} (hm : m ∈ s.mapn) (hu : u ∈ s.tq)
    (h1 : u.id = m.ttlIt) (h2 : u.mapIt = m.id) (v : Val) (d : Time) :
    abs (upd s m u v d) =
      { ttl := s.ttl, tq := delE (abs s).tq m.key ++ [{ key := m.key, val := v, dl := d }] } := by
  have hid : ((s.mapn.map (setVal m v)).map MNode.id).Nodup := (h.upd hm hu h1 h2 v d).idM
  rw [abs_eq, abs_eq]
  show UtMapState.mk s.ttl ((s.tq.filter (fun x : UNode => !(x.id == u.id)) ++ [{ u with expire := d }]).map
    (entOf (s.mapn.map (setVal m v)))) = _
  congr 1
  rw [List.map_append, ← filter_abs h hm hu h1 h2]
  congr 1
  · apply List.map_congr_left
    intro x hx
    have ⟨hx1, hx2⟩ := (mem_filter_ne UNode.id).mp hx
    obtain ⟨m', hm', e1, e2⟩ := h.bwd x hx1
    have hne : m'.id ≠ m.id := by
      intro e
      have := inj_of_nodup MNode.id h.idM hm' hm e
      subst this
      exact hx2 (e2.symm.trans h1.symm)
    have hmem : m' ∈ s.mapn.map (setVal m v) := by
      have := List.mem_map_of_mem (f := setVal m v) hm'
      rwa [setVal_ne v hne] at this
    rw [entOf_of h hm' e1, entOf_of' hid hmem e1]
  · have hmem : setVal m v m ∈ s.mapn.map (setVal m v) := List.mem_map_of_mem hm
    have e : (setVal m v m).id = ({ u with expire := d } : UNode).mapIt := by
      rw [setVal_id]; exact h2.symm
    rw [List.map_singleton, entOf_of' hid hmem e, setVal_self]

/-! ## `insert`, creating branch -/

def mkM (s : UState) (k : Key) (v : Val) : MNode := ⟨s.nextM, k, v, s.nextU⟩
def mkU (s : UState) (d : Time) : UNode := ⟨s.nextU, d, s.nextM⟩

def push (s : UState) (k : Key) (v : Val) (d : Time) : UState :=
  { s with mapn := s.mapn ++ [mkM s k v], tq := s.tq ++ [mkU s d],
           nextM := s.nextM + 1, nextU := s.nextU + 1 }

theorem Good.push (h : Good s) {k : Key} (hk : ∀ m ∈ s.mapn, m.key ≠ k) (v : Val) (d : Time) :
    Good (push s k v d) where
  ub := h.ub
  idM := by
    show ((s.mapn ++ [mkM s k v]).map MNode.id).Nodup
    rw [List.map_append]
    apply nodup_snoc h.idM
    intro hmem
    obtain ⟨y, hy, e⟩ := List.mem_map.mp hmem
    have := h.ltM y hy
    simp only [mkM] at e
    omega
  keyM := by
    show ((s.mapn ++ [mkM s k v]).map MNode.key).Nodup
    rw [List.map_append]
    apply nodup_snoc h.keyM
    intro hmem
    obtain ⟨y, hy, e⟩ := List.mem_map.mp hmem
    exact hk y hy e
  idU := by
    show ((s.tq ++ [mkU s d]).map UNode.id).Nodup
    rw [List.map_append]
    apply nodup_snoc h.idU
    intro hmem
    obtain ⟨y, hy, e⟩ := List.mem_map.mp hmem
    have := h.ltU y hy
    simp only [mkU] at e
    omega
  ltM := by
    intro x hx
    show x.id < s.nextM + 1
    rcases List.mem_append.mp hx with hx | hx
    · exact Nat.lt_succ_of_lt (h.ltM x hx)
    · simp only [List.mem_cons, List.not_mem_nil, or_false] at hx
      subst hx; exact Nat.lt_succ_self _
  ltU := by
    intro x hx
    show x.id < s.nextU + 1
    rcases List.mem_append.mp hx with hx | hx
    · exact Nat.lt_succ_of_lt (h.ltU x hx)
    · simp only [List.mem_cons, List.not_mem_nil, or_false] at hx
      subst hx; exact Nat.lt_succ_self _
  fwd := by
    intro x hx
    rcases List.mem_append.mp hx with hx | hx
    · obtain ⟨y, hy, e⟩ := h.fwd x hx
      exact ⟨y, List.mem_append_left _ hy, e⟩
    · simp only [List.mem_cons, List.not_mem_nil, or_false] at hx
      subst hx
      exact ⟨mkU s d, List.mem_append_right _ (by simp), rfl, rfl⟩
  bwd := by
    intro y hy
    rcases List.mem_append.mp hy with hy | hy
    · obtain ⟨x, hx, e⟩ := h.bwd y hy
      exact ⟨x, List.mem_append_left _ hx, e⟩
    · simp only [List.mem_cons, List.not_mem_nil, or_false] at hy
      subst hy
      exact ⟨mkM s k v, List.mem_append_right _ (by simp), rfl, rfl⟩
  len := by
    have := h.len
    show (s.mapn ++ [_]).length = (s.tq ++ [_]).length
    rw [List.length_append, List.length_append]
    simp only [List.length_singleton]
    omega

theorem abs_push (h : Good s) {k : Key} (hk : ∀ m ∈ s.mapn, m.key ≠ k) (v : Val) (d : Time) :
    abs (push s k v d) = { ttl := s.ttl, tq := (abs s).tq ++ [{ key := k, val := v, dl := d }] } := by
  have hid : ((s.mapn ++ [mkM s k v]).map MNode.id).Nodup := (h.push hk v d).idM
  rw [abs_eq, abs_eq]
  show UtMapState.mk s.ttl ((s.tq ++ [mkU s d]).map
    (entOf (s.mapn ++ [mkM s k v]))) = _
  congr 1
  rw [List.map_append]
  congr 1
  · apply List.map_congr_left
    intro x hx
    obtain ⟨m', hm', e1, e2⟩ := h.bwd x hx
    rw [entOf_of h hm' e1, entOf_of' hid (List.mem_append_left _ hm') e1]
  · have hmem : mkM s k v ∈ s.mapn ++ [mkM s k v] :=
      List.mem_append_right _ (by simp)
    rw [List.map_singleton, entOf_of' hid hmem (u := mkU s d) rfl]
    rfl

theorem insert1_spec (h : Good s) (now : Time) (k : Key) (v : Val) (a : Allow) :
    Good (insert1 s now k v a).1 ∧
    abs (insert1 s now k v a).1 = (Verif.UtMap.insert1 (abs s) now k v a).1 ∧
    (insert1 s now k v a).2 = (Verif.UtMap.insert1 (abs s) now k v a).2 := by
  cases hf : findNode s k with
  | none =>
    have hg := getE_abs_none h hf
    cases ha : a.ins with
    | false =>
      have e1 : insert1 s now k v a = (s, false) := by
        simp only [insert1, h.ub, hf, ha, Bool.false_eq_true, if_false]
      have e2 : Verif.UtMap.insert1 (abs s) now k v a = (abs s, false) := by
        simp only [Verif.UtMap.insert1, hg, ha, Bool.false_eq_true, if_false]
      rw [e1, e2]; exact ⟨h, rfl, rfl⟩
    | true =>
      have e1 : insert1 s now k v a = (push s k v (now + s.ttl), true) := by
        simp only [insert1, h.ub, hf, ha, Bool.false_eq_true, if_false, if_true, push, mkM, mkU]
      have e2 : Verif.UtMap.insert1 (abs s) now k v a =
          ({ ttl := s.ttl, tq := (abs s).tq ++ [{ key := k, val := v, dl := now + s.ttl }] }, true) := by
        simp only [Verif.UtMap.insert1, hg, ha, if_true]
        rfl
      rw [e1, e2]
      exact ⟨h.push (findNode_none hf) v _, abs_push h (findNode_none hf) v _, rfl⟩
  | some m =>
    obtain ⟨hm, hk⟩ := findNode_some hf
    obtain ⟨u, hu, h1, h2⟩ := h.fwd m hm
    have hg := getE_abs_some h hf hu h1 h2
    cases ha : a.upd with
    | false =>
      have e1 : insert1 s now k v a = (s, false) := by
        simp only [insert1, h.ub, hf, ha, Bool.false_eq_true, if_false]
      have e2 : Verif.UtMap.insert1 (abs s) now k v a = (abs s, false) := by
        simp only [Verif.UtMap.insert1, hg, ha, Bool.false_eq_true, if_false]
      rw [e1, e2]; exact ⟨h, rfl, rfl⟩
    | true =>
      have hfind : s.tq.find? (fun x => x.id == m.ttlIt) = some u := find?_of_nodup UNode.id h.idU hu h1
      have e1 : insert1 s now k v a = (upd s m u v (now + s.ttl), true) := by
        simp only [insert1, h.ub, hf, ha, hfind, Bool.false_eq_true, if_false, if_true, upd]
        rfl
      have e2 : Verif.UtMap.insert1 (abs s) now k v a =
          ({ ttl := s.ttl, tq := delE (abs s).tq k ++ [{ key := k, val := v, dl := now + s.ttl }] }, true) := by
        simp only [Verif.UtMap.insert1, hg, ha, if_true]
        rfl
      rw [e1, e2, ← hk]
      exact ⟨h.upd hm hu h1 h2 v _, abs_upd h hm hu h1 h2 v _, rfl⟩

/-! ## one-step simulation between two cores (with a prologue and a `clear`), lifted to histories -/

structure Sim2 {σ τ : Type} (c : Core σ) (d : Core τ) (R : σ → τ → Prop) : Prop where
  pre : ∀ s t now, R s t → R (c.pre s now) (d.pre t now)
  insert1 : ∀ s t now k v a ttl, R s t →
    (c.insert1 s now k v a ttl).2 = (d.insert1 t now k v a ttl).2 ∧
    R (c.insert1 s now k v a ttl).1 (d.insert1 t now k v a ttl).1
  find1 : ∀ s t now k peek, R s t →
    (c.find1 s now k peek).2 = (d.find1 t now k peek).2 ∧
    R (c.find1 s now k peek).1 (d.find1 t now k peek).1
  erase1 : ∀ s t k, R s t →
    (c.erase1 s k).2 = (d.erase1 t k).2 ∧ R (c.erase1 s k).1 (d.erase1 t k).1
  clear : ∀ s t, R s t → R (if c.hasClear then c.clear s else s) (if d.hasClear then d.clear t else t)
  clean : ∀ s t now, R s t → (c.clean s now).2 = (d.clean t now).2 ∧ R (c.clean s now).1 (d.clean t now).1
  age : ∀ s t now, R s t → (c.age s now).2 = (d.age t now).2 ∧ R (c.age s now).1 (d.age t now).1
  updateTtl : ∀ s t x, R s t → R (c.updateTtl s x) (d.updateTtl t x)
  size : ∀ s t, R s t → c.size s = d.size t
  capacity : ∀ s t, R s t → c.capacity s = d.capacity t

namespace Sim2
variable {σ τ : Type} {c : Core σ} {d : Core τ} {R : σ → τ → Prop}

theorem insertMany (h : Sim2 c d R) (now : Time) (a : Allow) (xs : List (Key × Val × Nat)) :
    ∀ s t, R s t → (c.insertMany s now a xs).2 = (d.insertMany t now a xs).2 ∧
      R (c.insertMany s now a xs).1 (d.insertMany t now a xs).1 := by
  induction xs with
  | nil => intro s t hr; exact ⟨rfl, hr⟩
  | cons x xs ih =>
    intro s t hr
    obtain ⟨k, v, ttl⟩ := x
    have h1 := h.insert1 s t now k v a ttl hr
    have h2 := ih _ _ h1.2
    simp only [Core.insertMany]
    exact ⟨by rw [h1.1, h2.1], h2.2⟩

theorem findMany (h : Sim2 c d R) (now : Time) (peek : Bool) (ks : List Key) :
    ∀ s t, R s t → (c.findMany s now peek ks).2 = (d.findMany t now peek ks).2 ∧
      R (c.findMany s now peek ks).1 (d.findMany t now peek ks).1 := by
  induction ks with
  | nil => intro s t hr; exact ⟨rfl, hr⟩
  | cons k ks ih =>
    intro s t hr
    have h1 := h.find1 s t now k peek hr
    have h2 := ih _ _ h1.2
    simp only [Core.findMany]
    exact ⟨by rw [h1.1, h2.1], h2.2⟩

theorem eraseMany (h : Sim2 c d R) (ks : List Key) :
    ∀ s t, R s t → (c.eraseMany s ks).2 = (d.eraseMany t ks).2 ∧
      R (c.eraseMany s ks).1 (d.eraseMany t ks).1 := by
  induction ks with
  | nil => intro s t hr; exact ⟨rfl, hr⟩
  | cons k ks ih =>
    intro s t hr
    have h1 := h.erase1 s t k hr
    have h2 := ih _ _ h1.2
    simp only [Core.eraseMany]
    exact ⟨by rw [h1.1, h2.1], h2.2⟩

theorem step (h : Sim2 c d R) (s : σ) (t : τ) (now : Time) (op : Op) (hr : R s t) :
    (c.step s now op).2 = (d.step t now op).2 ∧ R (c.step s now op).1 (d.step t now op).1 := by
  have hp := h.pre s t now hr
  cases op with
  | insert k v a ttl =>
    have := h.insert1 _ _ now k v a ttl hp
    exact ⟨by simp only [Core.step]; rw [this.1], this.2⟩
  | insertRange xs a =>
    have := h.insertMany now a xs _ _ hp
    exact ⟨by simp only [Core.step]; rw [this.1], this.2⟩
  | find k peek =>
    have := h.find1 _ _ now k peek hp
    exact ⟨by simp only [Core.step]; rw [this.1], this.2⟩
  | findRange ks peek =>
    have := h.findMany now peek ks _ _ hp
    exact ⟨by simp only [Core.step]; rw [this.1], this.2⟩
  | findCount k peek =>
    have := h.find1 _ _ now k peek hp
    exact ⟨by simp only [Core.step]; rw [this.1], this.2⟩
  | erase k =>
    have := h.erase1 _ _ k hp
    exact ⟨by simp only [Core.step]; rw [this.1], this.2⟩
  | eraseRange ks =>
    have := h.eraseMany ks _ _ hp
    exact ⟨by simp only [Core.step]; rw [this.1], this.2⟩
  | clear => exact ⟨rfl, h.clear s t hr⟩
  | clean =>
    have := h.clean s t now hr
    exact ⟨by simp only [Core.step]; rw [this.1], this.2⟩
  | age =>
    have := h.age s t now hr
    exact ⟨by simp only [Core.step]; rw [this.1], this.2⟩
  | updateTtl x => exact ⟨by simp only [Core.step], h.updateTtl s t x hr⟩
  | size => exact ⟨by simp only [Core.step]; rw [h.size s t hr], hr⟩
  | empty => exact ⟨by simp only [Core.step]; rw [h.size s t hr], hr⟩
  | capacity => exact ⟨by simp only [Core.step]; rw [h.capacity s t hr], hr⟩

theorem run (h : Sim2 c d R) (ops : List (Time × Op)) :
    ∀ s t, R s t → (c.run s ops).2 = (d.run t ops).2 ∧ R (c.run s ops).1 (d.run t ops).1 := by
  induction ops with
  | nil => intro s t hr; exact ⟨rfl, hr⟩
  | cons x ops ih =>
    intro s t hr
    obtain ⟨now, op⟩ := x
    have h1 := h.step s t now op hr
    have h2 := ih _ _ h1.2
    simp only [Core.run]
    exact ⟨by rw [h1.1, h2.1], h2.2⟩

end Sim2

/-! ## the simulation relation and the two theorems -/

def Rel (s : UState) (t : UtMapState) : Prop := Good s ∧ abs s = t

theorem sim : Sim2 core Verif.UtMap.core Rel where
  pre := by
    rintro s t now ⟨h, rfl⟩
    obtain ⟨g1, g2, _⟩ := prune_spec h now
    exact ⟨g1, g2⟩
  insert1 := by
    rintro s t now k v a ttl ⟨h, rfl⟩
    obtain ⟨g1, g2, g3⟩ := insert1_spec h now k v a
    exact ⟨g3, g1, g2⟩
  find1 := by
    rintro s t now k peek ⟨h, rfl⟩
    obtain ⟨g1, g2⟩ := find1_spec h k
    refine ⟨g2, ?_⟩
    show Rel (find1 s k).1 (abs s)
    rw [g1]; exact ⟨h, rfl⟩
  erase1 := by
    rintro s t k ⟨h, rfl⟩
    obtain ⟨g1, g2, g3⟩ := erase1_spec h k
    exact ⟨g3, g1, g2⟩
  clear := by
    rintro s t ⟨h, rfl⟩
    show Rel (if s.ub then s else { s with mapn := [], tq := [] }) { abs s with tq := [] }
    rw [h.ub]
    refine ⟨?_, rfl⟩
    constructor <;> simp
  clean := by
    rintro s t now ⟨h, rfl⟩
    obtain ⟨g1, g2, g3⟩ := prune_spec h now
    exact ⟨g3, g1, g2⟩
  age := by
    rintro s t now hr
    exact ⟨rfl, hr⟩
  updateTtl := by
    rintro s t x hr
    exact hr
  size := by
    rintro s t ⟨h, rfl⟩
    show s.mapn.length = (abs s).tq.length
    rw [abs_eq, List.length_map]; exact h.len
  capacity := by
    rintro s t _
    rfl

theorem rel_init (ttlMs : Nat) : Rel (init ttlMs) (Verif.UtMap.init ttlMs) :=
  ⟨good_init ttlMs, rfl⟩

/-- **C08 (model part), ut_map and ut_set**: for every TTL and every history the node-level model never
erases or dereferences through an iterator whose node is gone. -/
theorem no_ub (ttlMs : Nat) (ops : List (Time × Op)) : (core.run (init ttlMs) ops).1.ub = false :=
  (sim.run ops _ _ (rel_init ttlMs)).2.1.ub

/-- same results as the L1 model on every history; the L2 state abstracts to the L1 state -/
theorem refines_l1 (ttlMs : Nat) (ops : List (Time × Op)) :
    (core.run (init ttlMs) ops).2 = (Verif.UtMap.core.run (Verif.UtMap.init ttlMs) ops).2 ∧
    abs (core.run (init ttlMs) ops).1 = (Verif.UtMap.core.run (Verif.UtMap.init ttlMs) ops).1 :=
  ⟨(sim.run ops _ _ (rel_init ttlMs)).1, (sim.run ops _ _ (rel_init ttlMs)).2.2⟩

end Verif.L2.UtMap
