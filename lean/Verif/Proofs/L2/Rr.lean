import Verif.Concrete.Rr
import Verif.Model.Rr
import Verif.Proofs.Refine.Rr
/-!
# L2 `rr_cache`: no undefined behaviour on any history, and the L2 model refines the L1 model
-/
namespace Verif.L2.Rr
open Verif

/-- the L1 state an L2 state stands for: entries in hash-node creation order (key, value of its slot, slot
id), the free part of the open list, the remaining random outcomes -/
def abs (s : RrState) : Verif.RrState :=
  { cap := s.cap,
    ents := s.keyed.map (fun n => { key := n.key, val := (s.slots.getD n.slot default).val, slot := n.slot }),
    free := s.openList.drop s.openEnd,
    rnd := s.rnd }

/-! ## list helpers -/

theorem getD_set_eq {α} {l : List α} {i : Nat} (a d : α) (h : i < l.length) :
    (l.set i a).getD i d = a := by
  simp [List.getD_eq_getElem?_getD, h]

theorem getD_set_ne {α} {l : List α} {i j : Nat} (a d : α) (h : i ≠ j) :
    (l.set i a).getD j d = l.getD j d := by
  simp [List.getD_eq_getElem?_getD, h]

theorem set_getD_self {α} {l : List α} {i : Nat} (d : α) (h : i < l.length) :
    l.set i (l.getD i d) = l := by
  apply List.ext_getElem?
  intro j
  simp only [List.getElem?_set, List.getD_eq_getElem?_getD]
  split
  · subst_vars; simp [h]
  · rfl

theorem getD_eq_getElem' {α} {l : List α} {i : Nat} (d : α) (h : i < l.length) :
    l.getD i d = l[i] := by
  simp [List.getD_eq_getElem?_getD, h]

/-- the invariant of the slot-level state -/
structure Good (cap : Nat) (s : RrState) : Prop where
  ub : s.ub = false
  cap_pos : 0 < cap
  cap_eq : s.cap = cap
  slots_len : s.slots.length = cap
  ol_len : s.openList.length = cap
  end_le : s.openEnd ≤ cap
  ol_lt : ∀ p, p < cap → s.openList.getD p 0 < cap
  ol_inj : ∀ p q, p < cap → q < cap → s.openList.getD p 0 = s.openList.getD q 0 → p = q
  ol_surj : ∀ r, r < cap → ∃ p, p < cap ∧ s.openList.getD p 0 = r
  keyed_len : s.keyed.length = s.openEnd
  keyed_nodup : s.keyed.Nodup
  id_inj : ∀ m ∈ s.keyed, ∀ n ∈ s.keyed, m.id = n.id → m = n
  key_inj : ∀ m ∈ s.keyed, ∀ n ∈ s.keyed, m.key = n.key → m = n
  id_lt : ∀ n ∈ s.keyed, n.id < s.nextNode
  slot_lt : ∀ n ∈ s.keyed, n.slot < cap
  back_it : ∀ n ∈ s.keyed, (s.slots.getD n.slot default).keyedIt = n.id
  pos_lt : ∀ n ∈ s.keyed, (s.slots.getD n.slot default).openPos < s.openEnd
  back_pos : ∀ n ∈ s.keyed, s.openList.getD (s.slots.getD n.slot default).openPos 0 = n.slot
  used : ∀ p, p < s.openEnd → ∃ n ∈ s.keyed, n.slot = s.openList.getD p 0
  rnd_lt : ∀ r ∈ s.rnd, r < cap

theorem good_init {cap : Nat} (hcap : 0 < cap) (rnd : List Nat) (hr : ∀ r ∈ rnd, r < cap) :
    Good cap (init cap rnd) := by
  have hg : ∀ p, p < cap → (List.range cap).getD p 0 = p := by
    intro p hp
    simp [List.getD_eq_getElem?_getD, List.getElem?_range hp]
  refine ⟨rfl, hcap, rfl, by simp [init], by simp [init], Nat.zero_le _, ?_, ?_, ?_, rfl, by simp [init],
    ?_, ?_, ?_, ?_, ?_, ?_, ?_, ?_, hr⟩ <;> simp only [init]
  · intro p hp; rw [hg p hp]; exact hp
  · intro p q hp hq h; rw [hg p hp, hg q hq] at h; exact h
  · intro r hr; exact ⟨r, hr, hg r hr⟩
  all_goals (intros; simp_all)

theorem Good.slot_inj {cap : Nat} {s : RrState} (h : Good cap s) :
    ∀ m ∈ s.keyed, ∀ n ∈ s.keyed, m.slot = n.slot → m = n := by
  intro m hm n hn e
  apply h.id_inj m hm n hn
  rw [← h.back_it m hm, ← h.back_it n hn, e]

/-- the state after erasing hash node `n` (always written as the swap; it is the identity swap when the
slot is already last) -/
def eraseSt (s : RrState) (n : HNode) : RrState :=
  let pos := (s.slots.getD n.slot default).openPos
  let last := s.openEnd - 1
  let b := s.openList.getD last 0
  { s with openList := (s.openList.set pos b).set last n.slot,
           slots := s.slots.set b { s.slots.getD b default with openPos := pos },
           openEnd := last,
           keyed := s.keyed.filter (fun m => !(m.id == n.id)) }

/-- the swap part of `doErase` -/
def swapSt (s : RrState) (pos last : Nat) : RrState :=
  if pos ≠ last then
    let a := s.openList.getD pos 0
    let b := s.openList.getD last 0
    let ol := (s.openList.set pos b).set last a
    let moved := ol.getD pos 0
    if moved ≥ s.slots.length then fail s else
    let me := s.slots.getD moved default
    { s with openList := ol, slots := s.slots.set moved { me with openPos := pos } }
  else s

/-- the hash-erase part of `doErase` -/
def finishSt (s1 : RrState) (it last : Nat) : RrState :=
  if s1.ub then s1 else
  if s1.keyed.any (fun n => n.id == it) then
    { s1 with openEnd := last, keyed := s1.keyed.filter (fun n => !(n.id == it)) }
  else fail s1

theorem doErase_unfold (s : RrState) (idx : Nat) :
    doErase s idx =
      if idx ≥ s.slots.length then fail s else
      if s.openEnd = 0 then fail s else
      if (s.slots.getD idx default).openPos ≥ s.openList.length ∨ s.openEnd - 1 ≥ s.openList.length then fail s else
      finishSt (swapSt s (s.slots.getD idx default).openPos (s.openEnd - 1))
        (s.slots.getD idx default).keyedIt (s.openEnd - 1) := rfl

theorem doErase_eq {cap : Nat} {s : RrState} (h : Good cap s) {n : HNode} (hn : n ∈ s.keyed) :
    doErase s n.slot = eraseSt s n := by
  have hpos := h.pos_lt n hn
  have hbp := h.back_pos n hn
  have hsl := h.slot_lt n hn
  have hit := h.back_it n hn
  have hle := h.end_le
  have hub := h.ub
  have hany : (s.keyed.any fun m => m.id == n.id) = true :=
    List.any_eq_true.2 ⟨n, hn, by simp⟩
  rw [doErase_unfold, if_neg (by rw [h.slots_len]; omega), if_neg (by omega),
    if_neg (by rw [h.ol_len]; omega), hit]
  unfold eraseSt
  generalize he : s.slots.getD n.slot default = e at *
  simp only []
  by_cases hpl : e.openPos = s.openEnd - 1
  · have hsw : swapSt s e.openPos (s.openEnd - 1) = s := by
      unfold swapSt; rw [if_neg (by simp [hpl])]
    rw [hsw]; unfold finishSt
    rw [if_neg (by simp [hub]), if_pos hany]
    have hb : s.openList.getD (s.openEnd - 1) 0 = n.slot := by rw [← hpl]; exact hbp
    rw [hb, he, hpl]
    have h1 : (s.openList.set (s.openEnd - 1) n.slot).set (s.openEnd - 1) n.slot = s.openList := by
      rw [List.set_set]; rw [← hb]; exact set_getD_self 0 (by rw [h.ol_len]; omega)
    have h2 : s.slots.set n.slot { val := e.val, openPos := s.openEnd - 1, keyedIt := e.keyedIt } = s.slots := by
      rw [← hpl, ← he]; exact set_getD_self default (by rw [h.slots_len]; omega)
    rw [h1, h2]
  · have hmv : ((s.openList.set e.openPos (s.openList.getD (s.openEnd - 1) 0)).set (s.openEnd - 1)
        (s.openList.getD e.openPos 0)).getD e.openPos 0 = s.openList.getD (s.openEnd - 1) 0 := by
      rw [getD_set_ne _ _ (Ne.symm hpl), getD_set_eq _ _ (by rw [h.ol_len]; omega)]
    have hblt : s.openList.getD (s.openEnd - 1) 0 < cap := h.ol_lt _ (by omega)
    have hsw : swapSt s e.openPos (s.openEnd - 1) =
        { s with openList := (s.openList.set e.openPos (s.openList.getD (s.openEnd - 1) 0)).set (s.openEnd - 1) n.slot,
                 slots := s.slots.set (s.openList.getD (s.openEnd - 1) 0)
                   { s.slots.getD (s.openList.getD (s.openEnd - 1) 0) default with openPos := e.openPos } } := by
      unfold swapSt; rw [if_pos hpl]; simp only []
      rw [hmv, if_neg (by rw [h.slots_len]; omega), hbp]
    rw [hsw]; unfold finishSt
    simp only []
    rw [if_neg (by simp [hub]), if_pos hany]

/-- the transposition of two positions -/
def tau (pos last p : Nat) : Nat := if p = last then pos else if p = pos then last else p

theorem getD_set' {α} {l : List α} {i : Nat} (a d : α) (h : i < l.length) (j : Nat) :
    (l.set i a).getD j d = if j = i then a else l.getD j d := by
  by_cases hj : j = i
  · subst hj; rw [if_pos rfl, getD_set_eq _ _ h]
  · rw [if_neg hj, getD_set_ne _ _ (Ne.symm hj)]

theorem eraseSt_ol {cap : Nat} {s : RrState} (h : Good cap s) {n : HNode} (hn : n ∈ s.keyed) (p : Nat) :
    (eraseSt s n).openList.getD p 0 =
      s.openList.getD (tau (s.slots.getD n.slot default).openPos (s.openEnd - 1) p) 0 := by
  have hpos := h.pos_lt n hn
  have hbp := h.back_pos n hn
  have hle := h.end_le
  simp only [eraseSt]
  rw [getD_set' _ _ (by rw [List.length_set, h.ol_len]; omega), getD_set' _ _ (by rw [h.ol_len]; omega)]
  unfold tau
  split
  · exact hbp.symm
  · split <;> rfl

theorem eraseSt_sl {cap : Nat} {s : RrState} (h : Good cap s) {n : HNode} (hn : n ∈ s.keyed) (i : Nat) :
    (eraseSt s n).slots.getD i default =
      if i = s.openList.getD (s.openEnd - 1) 0 then
        { s.slots.getD i default with openPos := (s.slots.getD n.slot default).openPos }
      else s.slots.getD i default := by
  have hpos := h.pos_lt n hn
  have hle := h.end_le
  have hb : s.openList.getD (s.openEnd - 1) 0 < cap := h.ol_lt _ (by omega)
  simp only [eraseSt]
  rw [getD_set' _ _ (by rw [h.slots_len]; exact hb)]
  split
  · subst_vars; rfl
  · rfl

theorem length_filter_id {l : List HNode} {n : HNode} (hnd : l.Nodup) (hn : n ∈ l)
    (hinj : ∀ m ∈ l, m.id = n.id → m = n) :
    (l.filter (fun m => !(m.id == n.id))).length = l.length - 1 := by
  have : l.filter (fun m => !(m.id == n.id)) = l.filter (fun m => m != n) := by
    apply List.filter_congr
    intro m hm
    by_cases e : m.id = n.id
    · have := hinj m hm e; subst this; simp
    · have hmn : m ≠ n := fun c => e (by rw [c])
      have h1 : (m.id == n.id) = false := by simp [e]
      have h2 : (m != n) = true := by simp [hmn]
      show (!(m.id == n.id)) = (m != n)
      rw [h1, h2]; rfl
  rw [this, ← List.Nodup.erase_eq_filter hnd, List.length_erase_of_mem hn]

theorem mem_eraseSt {s : RrState} {n m : HNode} :
    m ∈ (eraseSt s n).keyed ↔ m ∈ s.keyed ∧ m.id ≠ n.id := by
  simp [eraseSt, List.mem_filter]

theorem good_erase {cap : Nat} {s : RrState} (h : Good cap s) {n : HNode} (hn : n ∈ s.keyed) :
    Good cap (eraseSt s n) := by
  have hpos := h.pos_lt n hn
  have hbp := h.back_pos n hn
  have hle := h.end_le
  have hb : s.openList.getD (s.openEnd - 1) 0 < cap := h.ol_lt _ (by omega)
  have hol := eraseSt_ol h hn
  have hsl := eraseSt_sl h hn
  have hend : (eraseSt s n).openEnd = s.openEnd - 1 := rfl
  generalize hP : (s.slots.getD n.slot default).openPos = pos at *
  have htlt : ∀ p, p < cap → tau pos (s.openEnd - 1) p < cap := by
    intro p hp; unfold tau; split; omega; split <;> omega
  have htinv : ∀ p, tau pos (s.openEnd - 1) (tau pos (s.openEnd - 1) p) = p := by
    intro p; unfold tau; split <;> split <;> (try split) <;> (try split) <;> omega
  have hne : ∀ m, m ∈ (eraseSt s n).keyed → m ∈ s.keyed ∧ m.slot ≠ n.slot := by
    intro m hm
    obtain ⟨hm, hid⟩ := mem_eraseSt.1 hm
    exact ⟨hm, fun e => hid (by rw [h.slot_inj m hm n hn e])⟩
  refine ⟨h.ub, h.cap_pos, h.cap_eq, ?_, ?_, ?_, ?_, ?_, ?_, ?_, ?_, ?_, ?_, ?_, ?_, ?_, ?_, ?_, ?_, h.rnd_lt⟩
  · simp [eraseSt, h.slots_len]
  · simp [eraseSt, h.ol_len]
  · rw [hend]; omega
  · intro p hp; rw [hol]; exact h.ol_lt _ (htlt p hp)
  · intro p q hp hq e
    rw [hol, hol] at e
    have := h.ol_inj _ _ (htlt p hp) (htlt q hq) e
    rw [← htinv p, ← htinv q, this]
  · intro r hr
    obtain ⟨p, hp, e⟩ := h.ol_surj r hr
    exact ⟨tau pos (s.openEnd - 1) p, htlt p hp, by rw [hol, htinv, e]⟩
  · rw [hend, ← h.keyed_len]
    exact length_filter_id h.keyed_nodup hn (fun m hm e => h.id_inj m hm n hn e)
  · exact List.Nodup.sublist List.filter_sublist h.keyed_nodup
  · intro m hm k hk; exact h.id_inj m (hne m hm).1 k (hne k hk).1
  · intro m hm k hk; exact h.key_inj m (hne m hm).1 k (hne k hk).1
  · intro m hm; exact h.id_lt m (hne m hm).1
  · intro m hm; exact h.slot_lt m (hne m hm).1
  · intro m hm
    rw [hsl, ← h.back_it m (hne m hm).1]
    split <;> rfl
  · intro m hm
    obtain ⟨hm, hms⟩ := hne m hm
    have h1 := h.pos_lt m hm
    have h2 := h.back_pos m hm
    rw [hsl, hend]
    split
    · rename_i e
      show pos < s.openEnd - 1
      have : pos ≠ s.openEnd - 1 := by
        intro c; apply hms; rw [e, ← c, hbp]
      omega
    · rename_i e
      have : (s.slots.getD m.slot default).openPos ≠ s.openEnd - 1 := by
        intro c; apply e; rw [← c, h2]
      omega
  · intro m hm
    obtain ⟨hm, hms⟩ := hne m hm
    have h1 := h.pos_lt m hm
    have h2 := h.back_pos m hm
    rw [hsl, hol]
    split
    · rename_i e
      show s.openList.getD (tau pos (s.openEnd - 1) pos) 0 = m.slot
      have : tau pos (s.openEnd - 1) pos = s.openEnd - 1 := by
        unfold tau; split; omega; simp
      rw [this, e]
    · rename_i e
      have e1 : (s.slots.getD m.slot default).openPos ≠ s.openEnd - 1 := by
        intro c; apply e; rw [← c, h2]
      have e2 : (s.slots.getD m.slot default).openPos ≠ pos := by
        intro c; apply hms; rw [← h2, c, hbp]
      have : tau pos (s.openEnd - 1) (s.slots.getD m.slot default).openPos =
          (s.slots.getD m.slot default).openPos := by
        unfold tau; rw [if_neg e1, if_neg e2]
      rw [this, h2]
  · intro p hp
    rw [hend] at hp
    have hp' : tau pos (s.openEnd - 1) p < s.openEnd := by
      unfold tau; split; omega; split <;> omega
    obtain ⟨m, hm, e⟩ := h.used _ hp'
    refine ⟨m, mem_eraseSt.2 ⟨hm, ?_⟩, by rw [hol, e]⟩
    intro c
    have hmn := h.id_inj m hm n hn c
    subst hmn
    rw [← hbp] at e
    have := h.ol_inj _ _ (by omega) (by omega) e
    have hc : p = s.openEnd - 1 := by rw [← htinv p, ← this]; unfold tau; simp
    omega

/-- the L1 entry of a hash node -/
def entOf (s : RrState) (n : HNode) : Entry :=
  { key := n.key, val := (s.slots.getD n.slot default).val, slot := n.slot }

theorem abs_ents (s : RrState) : (abs s).ents = s.keyed.map (entOf s) := rfl

theorem drop_erase {cap : Nat} {s : RrState} (h : Good cap s) {n : HNode} (hn : n ∈ s.keyed) :
    (eraseSt s n).openList.drop (s.openEnd - 1) = n.slot :: s.openList.drop s.openEnd := by
  have hpos := h.pos_lt n hn
  have hle := h.end_le
  simp only [eraseSt]
  have hlen : s.openEnd - 1 < ((s.openList.set (s.slots.getD n.slot default).openPos
      (s.openList.getD (s.openEnd - 1) 0)).set (s.openEnd - 1) n.slot).length := by
    rw [List.length_set, List.length_set, h.ol_len]; omega
  rw [List.drop_eq_getElem_cons hlen, List.drop_set_of_lt (by omega), List.drop_set_of_lt (by omega)]
  have : s.openEnd - 1 + 1 = s.openEnd := by omega
  rw [this]
  congr 1
  simp

theorem abs_erase {cap : Nat} {s : RrState} (h : Good cap s) {n : HNode} (hn : n ∈ s.keyed) :
    abs (eraseSt s n) =
      { abs s with ents := delE (abs s).ents n.key, free := n.slot :: (abs s).free } := by
  have hsl := eraseSt_sl h hn
  have hents : (abs (eraseSt s n)).ents = delE (abs s).ents n.key := by
    rw [abs_ents, abs_ents, delE, List.filter_map]
    have h1 : (eraseSt s n).keyed = s.keyed.filter ((fun e => !decide (e.key = n.key)) ∘ entOf s) := by
      show s.keyed.filter (fun m => !(m.id == n.id)) = _
      apply List.filter_congr
      intro m hm
      show (!(m.id == n.id)) = !decide (m.key = n.key)
      by_cases e : m = n
      · subst e; simp
      · have e1 : m.id ≠ n.id := fun c => e (h.id_inj m hm n hn c)
        have e2 : m.key ≠ n.key := fun c => e (h.key_inj m hm n hn c)
        simp [e1, e2]
    rw [h1]
    apply List.map_congr_left
    intro m _
    unfold entOf
    rw [hsl]
    split <;> rfl
  have hfree : (abs (eraseSt s n)).free = n.slot :: (abs s).free := drop_erase h hn
  have hcap : (abs (eraseSt s n)).cap = (abs s).cap := rfl
  have hrnd : (abs (eraseSt s n)).rnd = (abs s).rnd := rfl
  cases hx : abs (eraseSt s n)
  rw [hx] at hents hfree hcap hrnd
  simp only at hents hfree hcap hrnd
  rw [hents, hfree, hcap, hrnd]

/-! ## lookup, erase -/

theorem getE_abs (s : RrState) (k : Key) : getE (abs s).ents k = (findNode s k).map (entOf s) := by
  rw [abs_ents, getE, List.find?_map]; rfl

theorem findNode_some {s : RrState} {k : Key} {n : HNode} (h : findNode s k = some n) :
    n ∈ s.keyed ∧ n.key = k :=
  ⟨List.mem_of_find?_eq_some h, by simpa using List.find?_some h⟩

theorem findNode_none {s : RrState} {k : Key} (h : findNode s k = none) :
    ∀ m ∈ s.keyed, m.key ≠ k := by
  intro m hm
  have := List.find?_eq_none.1 h m hm
  simpa using this

theorem erase1_sim {cap : Nat} {s : RrState} (h : Good cap s) (k : Key) :
    Good cap (erase1 s k).1 ∧ (erase1 s k).2 = (Verif.Rr.erase1 (abs s) k).2 ∧
      abs (erase1 s k).1 = (Verif.Rr.erase1 (abs s) k).1 := by
  unfold erase1 Verif.Rr.erase1
  rw [if_neg (by simp [h.ub]), getE_abs]
  cases hf : findNode s k with
  | none => exact ⟨h, rfl, rfl⟩
  | some n =>
    obtain ⟨hn, hk⟩ := findNode_some hf
    simp only [Option.map_some]
    rw [doErase_eq h hn]
    refine ⟨good_erase h hn, trivial, ?_⟩
    rw [abs_erase h hn, hk]; rfl

theorem find1_sim {cap : Nat} {s : RrState} (h : Good cap s) (k : Key) :
    Good cap (find1 s k).1 ∧ (find1 s k).2 = (Verif.Rr.find1 (abs s) k).2 ∧
      abs (find1 s k).1 = (Verif.Rr.find1 (abs s) k).1 := by
  unfold find1 Verif.Rr.find1
  rw [if_neg (by simp [h.ub]), getE_abs]
  cases hf : findNode s k with
  | none => exact ⟨h, rfl, rfl⟩
  | some n =>
    obtain ⟨hn, hk⟩ := findNode_some hf
    have := h.slot_lt n hn
    simp only [Option.map_some]
    rw [if_neg (by rw [h.slots_len]; omega)]
    exact ⟨h, rfl, rfl⟩

/-! ## insertion of a new key -/

/-- the part of `doInsert` after the optional eviction -/
def insTail (s1 : RrState) (k : Key) (v : Val) : RrState :=
  if s1.ub then s1 else
  if s1.openEnd ≥ s1.openList.length then fail s1 else
  let idx := s1.openList.getD s1.openEnd 0
  if idx ≥ s1.slots.length then fail s1 else
  let node : HNode := ⟨s1.nextNode, k, idx⟩
  { s1 with keyed := s1.keyed ++ [node], nextNode := s1.nextNode + 1,
            slots := s1.slots.set idx ⟨v, s1.openEnd, node.id⟩, openEnd := s1.openEnd + 1 }

theorem doInsert_unfold (s : RrState) (k : Key) (v : Val) :
    doInsert s k v = insTail (if s.openEnd ≥ s.slots.length then doPrune s else s) k v := rfl

/-- the state after claiming the next free slot for `k ↦ v` -/
def insSt (s : RrState) (k : Key) (v : Val) : RrState :=
  { s with keyed := s.keyed ++ [⟨s.nextNode, k, s.openList.getD s.openEnd 0⟩],
           nextNode := s.nextNode + 1,
           slots := s.slots.set (s.openList.getD s.openEnd 0) ⟨v, s.openEnd, s.nextNode⟩,
           openEnd := s.openEnd + 1 }

theorem insTail_eq {cap : Nat} {s : RrState} (h : Good cap s) (hlt : s.openEnd < cap) (k : Key) (v : Val) :
    insTail s k v = insSt s k v := by
  have := h.ol_lt _ hlt
  unfold insTail insSt
  simp only []
  rw [if_neg (by simp [h.ub]), if_neg (by rw [h.ol_len]; omega), if_neg (by rw [h.slots_len]; omega)]

theorem mem_insSt {s : RrState} {k : Key} {v : Val} {m : HNode} :
    m ∈ (insSt s k v).keyed ↔ m ∈ s.keyed ∨ m = ⟨s.nextNode, k, s.openList.getD s.openEnd 0⟩ := by
  simp [insSt]

theorem insSt_slot_ne {cap : Nat} {s : RrState} (h : Good cap s) (hlt : s.openEnd < cap)
    {m : HNode} (hm : m ∈ s.keyed) : s.openList.getD s.openEnd 0 ≠ m.slot := by
  intro c
  have h1 := h.pos_lt m hm
  have h2 := h.back_pos m hm
  have := h.ol_inj _ _ (by omega) hlt (h2.trans c.symm)
  omega

theorem insSt_sl_old {cap : Nat} {s : RrState} (h : Good cap s) (hlt : s.openEnd < cap) (k : Key) (v : Val)
    {m : HNode} (hm : m ∈ s.keyed) :
    (insSt s k v).slots.getD m.slot default = s.slots.getD m.slot default := by
  simp only [insSt]
  exact getD_set_ne _ _ (insSt_slot_ne h hlt hm)

theorem insSt_sl_new {cap : Nat} {s : RrState} (h : Good cap s) (hlt : s.openEnd < cap) (k : Key) (v : Val) :
    (insSt s k v).slots.getD (s.openList.getD s.openEnd 0) default = ⟨v, s.openEnd, s.nextNode⟩ := by
  simp only [insSt]
  exact getD_set_eq _ _ (by rw [h.slots_len]; exact h.ol_lt _ hlt)

theorem good_ins {cap : Nat} {s : RrState} (h : Good cap s) (hlt : s.openEnd < cap) (k : Key) (v : Val)
    (hk : ∀ m ∈ s.keyed, m.key ≠ k) : Good cap (insSt s k v) := by
  have hidx := h.ol_lt _ hlt
  have hold := fun {m} hm => insSt_sl_old h hlt k v (m := m) hm
  have hnew := insSt_sl_new h hlt k v
  have hend : (insSt s k v).openEnd = s.openEnd + 1 := rfl
  have hol : (insSt s k v).openList = s.openList := rfl
  have hnn : (insSt s k v).nextNode = s.nextNode + 1 := rfl
  refine ⟨h.ub, h.cap_pos, h.cap_eq, ?_, h.ol_len, ?_, h.ol_lt, h.ol_inj, h.ol_surj, ?_, ?_, ?_, ?_, ?_, ?_, ?_, ?_, ?_, ?_,
    h.rnd_lt⟩
  · simp [insSt, h.slots_len]
  · rw [hend]; omega
  · simp [insSt, h.keyed_len]
  · show (s.keyed ++ [_]).Nodup
    rw [List.nodup_append]
    refine ⟨h.keyed_nodup, by simp, ?_⟩
    intro a ha b hb c
    have := h.id_lt a ha
    simp at hb; subst hb; subst c
    simp at this
  · intro m hm n hn e
    rcases mem_insSt.1 hm with hm | hm <;> rcases mem_insSt.1 hn with hn | hn
    · exact h.id_inj m hm n hn e
    · have := h.id_lt m hm; subst hn; simp at e; omega
    · have := h.id_lt n hn; subst hm; simp at e; omega
    · rw [hm, hn]
  · intro m hm n hn e
    rcases mem_insSt.1 hm with hm | hm <;> rcases mem_insSt.1 hn with hn | hn
    · exact h.key_inj m hm n hn e
    · subst hn; exact absurd e (hk m hm)
    · subst hm; exact absurd e.symm (hk n hn)
    · rw [hm, hn]
  · intro m hm
    rw [hnn]
    rcases mem_insSt.1 hm with hm | hm
    · have := h.id_lt m hm; omega
    · subst hm; simp
  · intro m hm
    rcases mem_insSt.1 hm with hm | hm
    · exact h.slot_lt m hm
    · subst hm; exact hidx
  · intro m hm
    rcases mem_insSt.1 hm with hm | hm
    · rw [hold hm]; exact h.back_it m hm
    · subst hm; simp only []; rw [hnew]
  · intro m hm
    rw [hend]
    rcases mem_insSt.1 hm with hm | hm
    · rw [hold hm]; have := h.pos_lt m hm; omega
    · subst hm; simp only []; rw [hnew]; simp
  · intro m hm
    rw [hol]
    rcases mem_insSt.1 hm with hm | hm
    · rw [hold hm]; exact h.back_pos m hm
    · subst hm; simp only []; rw [hnew]
  · intro p hp
    rw [hend] at hp
    rw [hol]
    by_cases hpe : p = s.openEnd
    · subst hpe
      exact ⟨_, mem_insSt.2 (Or.inr rfl), rfl⟩
    · obtain ⟨m, hm, e⟩ := h.used p (by omega)
      exact ⟨m, mem_insSt.2 (Or.inl hm), e⟩

/-- the L1 append -/
def l1app (t : Verif.RrState) (k : Key) (v : Val) : Verif.RrState :=
  { t with ents := t.ents ++ [{ key := k, val := v, slot := t.free.headD 0 }], free := t.free.tail }

theorem abs_ins {cap : Nat} {s : RrState} (h : Good cap s) (hlt : s.openEnd < cap) (k : Key) (v : Val) :
    abs (insSt s k v) = l1app (abs s) k v := by
  have hold := fun {m} hm => insSt_sl_old h hlt k v (m := m) hm
  have hnew := insSt_sl_new h hlt k v
  have hhd : (s.openList.drop s.openEnd).headD 0 = s.openList.getD s.openEnd 0 := by
    rw [List.headD_eq_head?_getD, List.head?_drop, List.getD_eq_getElem?_getD]
  have hents : (abs (insSt s k v)).ents = (l1app (abs s) k v).ents := by
    show (s.keyed ++ [_]).map (entOf (insSt s k v)) = s.keyed.map (entOf s) ++ [_]
    rw [List.map_append]
    congr 1
    · apply List.map_congr_left
      intro m hm
      unfold entOf; rw [hold hm]
    · show [entOf (insSt s k v) _] = _
      unfold entOf; simp only []; rw [hnew]
      show _ = [({ key := k, val := v, slot := (s.openList.drop s.openEnd).headD 0 } : Entry)]
      rw [hhd]
  have hfree : (abs (insSt s k v)).free = (l1app (abs s) k v).free := by
    show s.openList.drop (s.openEnd + 1) = (s.openList.drop s.openEnd).tail
    rw [List.tail_drop]
  have hcap : (abs (insSt s k v)).cap = (l1app (abs s) k v).cap := rfl
  have hrnd : (abs (insSt s k v)).rnd = (l1app (abs s) k v).rnd := rfl
  cases hx : abs (insSt s k v)
  cases hy : l1app (abs s) k v
  rw [hx, hy] at hents hfree hcap hrnd
  simp only at hents hfree hcap hrnd
  rw [hents, hfree, hcap, hrnd]

/-! ## eviction -/

theorem good_tail_rnd {cap : Nat} {s : RrState} (h : Good cap s) :
    Good cap { s with rnd := s.rnd.tail } :=
  ⟨h.ub, h.cap_pos, h.cap_eq, h.slots_len, h.ol_len, h.end_le, h.ol_lt, h.ol_inj, h.ol_surj, h.keyed_len,
    h.keyed_nodup, h.id_inj, h.key_inj, h.id_lt, h.slot_lt, h.back_it, h.pos_lt, h.back_pos, h.used,
    fun r hr => h.rnd_lt r (List.mem_of_mem_tail hr)⟩

theorem prune_sim {cap : Nat} {s : RrState} (h : Good cap s) (hfull : s.openEnd = cap) :
    Good cap (doPrune s) ∧ abs (doPrune s) = Verif.Rr.prune (abs s) ∧ (doPrune s).openEnd = cap - 1 ∧
      (∀ m ∈ (doPrune s).keyed, m ∈ s.keyed) := by
  have hcp := h.cap_pos
  have hr : s.rnd.headD 0 < cap := by
    cases hrn : s.rnd with
    | nil => exact hcp
    | cons a t => exact h.rnd_lt a (by rw [hrn]; simp)
  obtain ⟨p, hp, e⟩ := h.ol_surj _ hr
  obtain ⟨n, hn, e2⟩ := h.used p (by omega)
  rw [e] at e2
  have hs' := good_tail_rnd h
  have hn' : n ∈ ({ s with rnd := s.rnd.tail } : RrState).keyed := hn
  have hdp : doPrune s = eraseSt { s with rnd := s.rnd.tail } n := by
    unfold doPrune
    rw [if_pos (by omega), ← e2]
    exact doErase_eq hs' hn'
  rw [hdp]
  refine ⟨good_erase hs' hn', ?_, ?_, ?_⟩
  · rw [abs_erase hs' hn']
    unfold Verif.Rr.prune
    have hat : Verif.Rr.atSlot (abs s).ents (s.rnd.headD 0) = some (entOf s n) := by
      rw [abs_ents, Verif.Rr.atSlot, List.find?_map]
      cases hf : List.find? ((fun e => decide (e.slot = s.rnd.headD 0)) ∘ entOf s) s.keyed with
      | none =>
        have := List.find?_eq_none.1 hf n hn
        simp [entOf, e2] at this
      | some n' =>
        have h1 := List.mem_of_find?_eq_some hf
        have h2 : n'.slot = s.rnd.headD 0 := by simpa [entOf] using List.find?_some hf
        rw [h.slot_inj n' h1 n hn (by rw [h2, e2])]
        rfl
    rw [show (abs s).rnd = s.rnd from rfl]
    simp only []
    rw [hat]
    simp only []
    rw [← e2]
    rfl
  · show s.openEnd - 1 = cap - 1
    rw [hfull]
  · intro m hm; exact (mem_eraseSt.1 hm).1

/-! ## update of a resident key -/

def updSt (s : RrState) (n : HNode) (v : Val) : RrState :=
  { s with slots := s.slots.set n.slot { s.slots.getD n.slot default with val := v } }

theorem updSt_sl {cap : Nat} {s : RrState} (h : Good cap s) {n : HNode} (hn : n ∈ s.keyed) (v : Val) (i : Nat) :
    (updSt s n v).slots.getD i default =
      if i = n.slot then { s.slots.getD i default with val := v } else s.slots.getD i default := by
  simp only [updSt]
  rw [getD_set' _ _ (by rw [h.slots_len]; exact h.slot_lt n hn)]
  split
  · subst_vars; rfl
  · rfl

theorem good_upd {cap : Nat} {s : RrState} (h : Good cap s) {n : HNode} (hn : n ∈ s.keyed) (v : Val) :
    Good cap (updSt s n v) := by
  have hsl := updSt_sl h hn v
  have h1 : ∀ i, ((updSt s n v).slots.getD i default).keyedIt = (s.slots.getD i default).keyedIt := by
    intro i; rw [hsl]; split <;> rfl
  have h2 : ∀ i, ((updSt s n v).slots.getD i default).openPos = (s.slots.getD i default).openPos := by
    intro i; rw [hsl]; split <;> rfl
  refine ⟨h.ub, h.cap_pos, h.cap_eq, ?_, h.ol_len, h.end_le, h.ol_lt, h.ol_inj, h.ol_surj, h.keyed_len,
    h.keyed_nodup, h.id_inj, h.key_inj, h.id_lt, h.slot_lt, ?_, ?_, ?_, h.used, h.rnd_lt⟩
  · simp [updSt, h.slots_len]
  · intro m hm; rw [h1]; exact h.back_it m hm
  · intro m hm; rw [h2]; exact h.pos_lt m hm
  · intro m hm; rw [h2]; exact h.back_pos m hm

theorem abs_upd {cap : Nat} {s : RrState} (h : Good cap s) {n : HNode} (hn : n ∈ s.keyed) (v : Val) :
    abs (updSt s n v) = { abs s with ents := Verif.Rr.setVal (abs s).ents n.key v } := by
  have hsl := updSt_sl h hn v
  have hents : (abs (updSt s n v)).ents = Verif.Rr.setVal (abs s).ents n.key v := by
    rw [abs_ents, abs_ents, Verif.Rr.setVal, List.map_map]
    apply List.map_congr_left
    intro m hm
    show entOf (updSt s n v) m = if m.key = n.key then { entOf s m with val := v } else entOf s m
    by_cases e : m = n
    · subst e
      rw [if_pos rfl]
      unfold entOf; rw [hsl, if_pos rfl]
    · have e2 : m.key ≠ n.key := fun c => e (h.key_inj m hm n hn c)
      have e3 : m.slot ≠ n.slot := fun c => e (h.slot_inj m hm n hn c)
      rw [if_neg e2]
      unfold entOf; rw [hsl, if_neg e3]
  have hfree : (abs (updSt s n v)).free = (abs s).free := rfl
  have hcap : (abs (updSt s n v)).cap = (abs s).cap := rfl
  have hrnd : (abs (updSt s n v)).rnd = (abs s).rnd := rfl
  cases hx : abs (updSt s n v)
  rw [hx] at hents hfree hcap hrnd
  simp only at hents hfree hcap hrnd
  rw [hents, hfree, hcap, hrnd]

theorem abs_ents_len {cap : Nat} {s : RrState} (h : Good cap s) : (abs s).ents.length = s.openEnd := by
  rw [abs_ents, List.length_map, h.keyed_len]

theorem insert1_sim {cap : Nat} {s : RrState} (h : Good cap s) (k : Key) (v : Val) (a : Allow) :
    Good cap (insert1 s k v a).1 ∧ (insert1 s k v a).2 = (Verif.Rr.insert1 (abs s) k v a).2 ∧
      abs (insert1 s k v a).1 = (Verif.Rr.insert1 (abs s) k v a).1 := by
  unfold insert1 Verif.Rr.insert1
  rw [if_neg (by simp [h.ub]), getE_abs]
  cases hf : findNode s k with
  | none =>
    simp only [Option.map_none]
    cases hi : a.ins with
    | false => exact ⟨h, rfl, rfl⟩
    | true =>
      simp only [if_true]
      have hk := findNode_none hf
      have hlen := abs_ents_len h
      have hcap : (abs s).cap = cap := h.cap_eq
      rw [doInsert_unfold]
      by_cases hfull : s.openEnd ≥ s.slots.length
      · rw [h.slots_len] at hfull
        have hfe : s.openEnd = cap := Nat.le_antisymm h.end_le hfull
        obtain ⟨hg, habs, hend, hsub⟩ := prune_sim h hfe
        have hlt : (doPrune s).openEnd < cap := by have := h.cap_pos; omega
        rw [if_pos (by rw [h.slots_len]; exact hfull), if_pos (by rw [hlen, hcap]; exact hfull),
          insTail_eq hg hlt]
        refine ⟨good_ins hg hlt k v (fun m hm => hk m (hsub m hm)), trivial, ?_⟩
        rw [abs_ins hg hlt, habs]; rfl
      · rw [h.slots_len] at hfull
        have hlt : s.openEnd < cap := by omega
        rw [if_neg (by rw [h.slots_len]; omega), if_neg (by rw [hlen, hcap]; omega), insTail_eq h hlt]
        refine ⟨good_ins h hlt k v hk, trivial, ?_⟩
        rw [abs_ins h hlt]; rfl
  | some n =>
    obtain ⟨hn, hkn⟩ := findNode_some hf
    simp only [Option.map_some]
    cases hu : a.upd with
    | false => exact ⟨h, rfl, rfl⟩
    | true =>
      simp only [if_true]
      have := h.slot_lt n hn
      rw [if_neg (by rw [h.slots_len]; omega)]
      refine ⟨good_upd h hn v, rfl, ?_⟩
      show abs (updSt s n v) = _
      rw [abs_upd h hn, hkn]

/-! ## range forms, public step, histories -/

theorem insertMany_sim {cap : Nat} (now : Time) (a : Allow) (xs : List (Key × Val × Nat)) :
    ∀ {s : RrState}, Good cap s →
      Good cap (core.insertMany s now a xs).1 ∧
      (core.insertMany s now a xs).2 = (Verif.Rr.core.insertMany (abs s) now a xs).2 ∧
      abs (core.insertMany s now a xs).1 = (Verif.Rr.core.insertMany (abs s) now a xs).1 := by
  induction xs with
  | nil => intro s h; exact ⟨h, rfl, rfl⟩
  | cons x xs ih =>
    intro s h
    obtain ⟨k, v, ttl⟩ := x
    obtain ⟨hg, hb, ha⟩ := insert1_sim h k v a
    obtain ⟨hg', hb', ha'⟩ := ih hg
    simp only [Core.insertMany]
    show Good cap (core.insertMany (insert1 s k v a).1 now a xs).1 ∧
      (if (insert1 s k v a).2 = true then 1 else 0) + (core.insertMany (insert1 s k v a).1 now a xs).2 =
        (if (Verif.Rr.insert1 (abs s) k v a).2 = true then 1 else 0) +
          (Verif.Rr.core.insertMany (Verif.Rr.insert1 (abs s) k v a).1 now a xs).2 ∧
      abs (core.insertMany (insert1 s k v a).1 now a xs).1 =
        (Verif.Rr.core.insertMany (Verif.Rr.insert1 (abs s) k v a).1 now a xs).1
    rw [← ha, ← hb]
    exact ⟨hg', by rw [hb'], ha'⟩

theorem findMany_sim {cap : Nat} (now : Time) (peek : Bool) (ks : List Key) :
    ∀ {s : RrState}, Good cap s →
      Good cap (core.findMany s now peek ks).1 ∧
      (core.findMany s now peek ks).2 = (Verif.Rr.core.findMany (abs s) now peek ks).2 ∧
      abs (core.findMany s now peek ks).1 = (Verif.Rr.core.findMany (abs s) now peek ks).1 := by
  induction ks with
  | nil => intro s h; exact ⟨h, rfl, rfl⟩
  | cons k ks ih =>
    intro s h
    obtain ⟨hg, hb, ha⟩ := find1_sim h k
    obtain ⟨hg', hb', ha'⟩ := ih hg
    simp only [Core.findMany]
    show Good cap (core.findMany (find1 s k).1 now peek ks).1 ∧
      (find1 s k).2.map (·.1) :: (core.findMany (find1 s k).1 now peek ks).2 =
        (Verif.Rr.find1 (abs s) k).2.map (·.1) ::
          (Verif.Rr.core.findMany (Verif.Rr.find1 (abs s) k).1 now peek ks).2 ∧
      abs (core.findMany (find1 s k).1 now peek ks).1 =
        (Verif.Rr.core.findMany (Verif.Rr.find1 (abs s) k).1 now peek ks).1
    rw [← ha, ← hb]
    exact ⟨hg', by rw [hb'], ha'⟩

theorem eraseMany_sim {cap : Nat} (ks : List Key) :
    ∀ {s : RrState}, Good cap s →
      Good cap (core.eraseMany s ks).1 ∧
      (core.eraseMany s ks).2 = (Verif.Rr.core.eraseMany (abs s) ks).2 ∧
      abs (core.eraseMany s ks).1 = (Verif.Rr.core.eraseMany (abs s) ks).1 := by
  induction ks with
  | nil => intro s h; exact ⟨h, rfl, rfl⟩
  | cons k ks ih =>
    intro s h
    obtain ⟨hg, hb, ha⟩ := erase1_sim h k
    obtain ⟨hg', hb', ha'⟩ := ih hg
    simp only [Core.eraseMany]
    show Good cap (core.eraseMany (erase1 s k).1 ks).1 ∧
      (if (erase1 s k).2 = true then 1 else 0) + (core.eraseMany (erase1 s k).1 ks).2 =
        (if (Verif.Rr.erase1 (abs s) k).2 = true then 1 else 0) +
          (Verif.Rr.core.eraseMany (Verif.Rr.erase1 (abs s) k).1 ks).2 ∧
      abs (core.eraseMany (erase1 s k).1 ks).1 =
        (Verif.Rr.core.eraseMany (Verif.Rr.erase1 (abs s) k).1 ks).1
    rw [← ha, ← hb]
    exact ⟨hg', by rw [hb'], ha'⟩

theorem step_sim {cap : Nat} {s : RrState} (h : Good cap s) (now : Time) (op : Op) :
    Good cap (core.step s now op).1 ∧
    (core.step s now op).2 = (Verif.Rr.core.step (abs s) now op).2 ∧
    abs (core.step s now op).1 = (Verif.Rr.core.step (abs s) now op).1 := by
  cases op with
  | insert k v a ttl =>
    obtain ⟨hg, hb, ha⟩ := insert1_sim h k v a
    exact ⟨hg, congrArg Out.bool hb, ha⟩
  | insertRange xs a =>
    obtain ⟨hg, hb, ha⟩ := insertMany_sim now a xs h
    exact ⟨hg, congrArg Out.nat hb, ha⟩
  | find k peek =>
    obtain ⟨hg, hb, ha⟩ := find1_sim h k
    refine ⟨hg, ?_, ha⟩
    show Out.opt ((find1 s k).2.map (·.1)) = Out.opt ((Verif.Rr.find1 (abs s) k).2.map (·.1))
    rw [hb]
  | findRange ks peek =>
    obtain ⟨hg, hb, ha⟩ := findMany_sim now peek ks h
    exact ⟨hg, congrArg Out.opts hb, ha⟩
  | findCount k peek =>
    obtain ⟨hg, hb, ha⟩ := find1_sim h k
    exact ⟨hg, congrArg Out.optc hb, ha⟩
  | erase k =>
    obtain ⟨hg, hb, ha⟩ := erase1_sim h k
    exact ⟨hg, congrArg Out.bool hb, ha⟩
  | eraseRange ks =>
    obtain ⟨hg, hb, ha⟩ := eraseMany_sim ks h
    exact ⟨hg, congrArg Out.nat hb, ha⟩
  | clear => exact ⟨h, rfl, rfl⟩
  | clean => exact ⟨h, rfl, rfl⟩
  | age => exact ⟨h, rfl, rfl⟩
  | updateTtl t => exact ⟨h, rfl, rfl⟩
  | size =>
    refine ⟨h, ?_, rfl⟩
    show Out.nat s.openEnd = Out.nat (abs s).ents.length
    rw [abs_ents_len h]
  | empty =>
    refine ⟨h, ?_, rfl⟩
    show Out.bool (s.openEnd == 0) = Out.bool ((abs s).ents.length == 0)
    rw [abs_ents_len h]
  | capacity =>
    refine ⟨h, ?_, rfl⟩
    show Out.nat s.slots.length = Out.nat s.cap
    rw [h.slots_len, h.cap_eq]

theorem run_sim {cap : Nat} (ops : List (Time × Op)) :
    ∀ {s : RrState}, Good cap s →
      Good cap (core.run s ops).1 ∧
      (core.run s ops).2 = (Verif.Rr.core.run (abs s) ops).2 ∧
      abs (core.run s ops).1 = (Verif.Rr.core.run (abs s) ops).1 := by
  induction ops with
  | nil => intro s h; exact ⟨h, rfl, rfl⟩
  | cons x ops ih =>
    intro s h
    obtain ⟨t, op⟩ := x
    obtain ⟨hg, hb, ha⟩ := step_sim h t op
    obtain ⟨hg', hb', ha'⟩ := ih hg
    simp only [Core.run]
    rw [← ha, ← hb]
    exact ⟨hg', by rw [hb'], ha'⟩

theorem abs_init (cap : Nat) (rnd : List Nat) : abs (init cap rnd) = Verif.Rr.init cap rnd := by
  simp [abs, init, Verif.Rr.init]

/-- **C08 (model part), rr_cache**: for every capacity ≥ 1, every stream of in-range random outcomes and
every history, the slot-level model never indexes out of range, never erases through a stale hash
iterator: `ub` stays false. -/
theorem no_ub (cap : Nat) (hcap : 0 < cap) (rnd : List Nat) (hr : ∀ r ∈ rnd, r < cap)
    (ops : List (Time × Op)) : (core.run (init cap rnd) ops).1.ub = false :=
  (run_sim ops (good_init hcap rnd hr)).1.ub

/-- the slot-level model and the L1 model return the same results on every history, and the L2 state
abstracts to the L1 state -/
theorem refines_l1 (cap : Nat) (hcap : 0 < cap) (rnd : List Nat) (hr : ∀ r ∈ rnd, r < cap)
    (ops : List (Time × Op)) :
    (core.run (init cap rnd) ops).2 = (Verif.Rr.core.run (Verif.Rr.init cap rnd) ops).2 ∧
    abs (core.run (init cap rnd) ops).1 = (Verif.Rr.core.run (Verif.Rr.init cap rnd) ops).1 := by
  have h := run_sim ops (good_init hcap rnd hr)
  rw [abs_init] at h
  exact ⟨h.2.1, h.2.2⟩

end Verif.L2.Rr
