import Verif.Concrete.Rr
import Verif.Model.Rr
import Verif.Proofs.Refine.Rr
/-!
# L2 `rr_cache`: no undefined behaviour on any history, and the L2 model refines the L1 model
-/
namespace Verif.L2.Rr
open Verif

/-- the L1 state an L2 state stands for: entries in hash-node creation order (key, value of its slot, slot
id), the free part of the open list, the remaining random outcomes -/
def abs (s : RrState) : Verif.RrState :=
  { cap := s.cap,
    ents := s.keyed.map (fun n => { key := n.key, val := (s.slots.getD n.slot default).val, slot := n.slot }),
    free := s.openList.drop s.openEnd,
    rnd := s.rnd }

/-- **C08 (model part), rr_cache**: for every capacity ≥ 1, every stream of in-range random outcomes and
every history, the slot-level model never indexes out of range, never erases through a stale hash
iterator: `ub` stays false. -/
theorem no_ub (cap : Nat) (hcap : 0 < cap) (rnd : List Nat) (hr : ∀ r ∈ rnd, r < cap)
    (ops : List (Time × Op)) : (core.run (init cap rnd) ops).1.ub = false := by
  sorry

/-- the slot-level model and the L1 model return the same results on every history, and the L2 state
abstracts to the L1 state -/
theorem refines_l1 (cap : Nat) (hcap : 0 < cap) (rnd : List Nat) (hr : ∀ r ∈ rnd, r < cap)
    (ops : List (Time × Op)) :
    (core.run (init cap rnd) ops).2 = (Verif.Rr.core.run (Verif.Rr.init cap rnd) ops).2 ∧
    abs (core.run (init cap rnd) ops).1 = (Verif.Rr.core.run (Verif.Rr.init cap rnd) ops).1 := by
  sorry

end Verif.L2.Rr
