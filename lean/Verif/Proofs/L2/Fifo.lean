import Verif.Concrete.Node
import Verif.Model.Fifo
import Verif.Proofs.L2.SlotLemmas
import Verif.Proofs.Refine.Fifo
/-!
# L2 `fifo_cache`: no undefined behaviour on any history, refinement of the L1 model
-/
namespace Verif.L2.Fifo
open Verif

/-- the entry a list node holds, if it holds one -/
def entryOf (s : FState) (nd : Nat) : Option Entry :=
  match (s.nodes.getD nd default).keyedIt with
  | none => none
  | some it => (s.keyed.find? (fun n => n.id == it)).map (fun n => { key := n.key, val := (s.nodes.getD nd default).val })

/-- the L1 state: the nodes that hold a key, in list order (earliest inserted first) -/
def abs (s : FState) : FifoState :=
  { cap := s.order.length, ents := s.order.filterMap (entryOf s) }

/-! ## generic list facts -/

/-- pairwise distinct images: injective on members -/
theorem pairwise_inj {α : Type} {g : α → Nat} {l : List α} (h : l.Pairwise (fun a b => g a ≠ g b))
    {a b : α} (ha : a ∈ l) (hb : b ∈ l) (e : g a = g b) : a = b := by
  induction l with
  | nil => cases ha
  | cons x t ih =>
    rw [List.pairwise_cons] at h
    rcases List.mem_cons.mp ha with rfl | ha'
    · rcases List.mem_cons.mp hb with rfl | hb'
      · rfl
      · exact absurd e (h.1 _ hb')
    · rcases List.mem_cons.mp hb with rfl | hb'
      · exact absurd e.symm (h.1 _ ha')
      · exact ih h.2 ha' hb'

theorem find?_eq_self {l : List Nat} {i : Nat} (hi : i ∈ l) : l.find? (fun x => x == i) = some i := by
  induction l with
  | nil => cases hi
  | cons a t ih =>
    by_cases e : a = i
    · simp [e]
    · have : i ∈ t := by
        rcases List.mem_cons.mp hi with e' | e'
        · exact absurd e'.symm e
        · exact e'
      simp [e, ih this]

theorem find?_congr' {α : Type} {p q : α → Bool} {l : List α} (h : ∀ x ∈ l, p x = q x) :
    l.find? p = l.find? q := by
  induction l with
  | nil => rfl
  | cons a t ih =>
    simp only [List.find?_cons, h a (by simp)]
    rw [ih (fun x hx => h x (List.mem_cons_of_mem _ hx))]

theorem getD_set_self {α : Type} {l : List α} {i : Nat} (hi : i < l.length) (x d : α) :
    (l.set i x).getD i d = x := by
  simp [List.getD_eq_getElem?_getD, hi]

theorem getD_set_ne {α : Type} {l : List α} {i j : Nat} (hne : i ≠ j) (x d : α) :
    (l.set i x).getD j d = l.getD j d := by
  simp [List.getD_eq_getElem?_getD, hne]

theorem filterMap_none {α β : Type} {f : α → Option β} {l : List α} (h : ∀ x ∈ l, f x = none) :
    l.filterMap f = [] := by
  induction l with
  | nil => rfl
  | cons a t ih =>
    rw [List.filterMap_cons, h a (by simp)]
    exact ih (fun x hx => h x (List.mem_cons_of_mem _ hx))

theorem filterMap_some {α β : Type} {f : α → Option β} {g : α → β} {l : List α}
    (h : ∀ x ∈ l, f x = some (g x)) : l.filterMap f = l.map g := by
  induction l with
  | nil => rfl
  | cons a t ih =>
    rw [List.filterMap_cons, h a (by simp), List.map_cons]
    rw [ih (fun x hx => h x (List.mem_cons_of_mem _ hx))]

/-- `splice(begin(), list, it)` on a duplicate-free list: `it` moves to the front -/
theorem splice_begin {l : List Nat} {i : Nat} (hn : l.Nodup) (hi : i ∈ l) :
    LList.splice l l.head? i = i :: l.filter (fun x => !(x == i)) := by
  have := LList.splice_front (u := l) (f := []) (by simpa using hn) hi
  simpa using this

/-- the guard `if it != begin()` around `splice(begin(), list, it)` changes nothing -/
theorem guarded_splice_begin (l : List Nat) (i : Nat) :
    (if l.head? ≠ some i then LList.splice l l.head? i else l) = LList.splice l l.head? i := by
  by_cases e : l.head? = some i
  · simp [LList.splice, e]
  · simp [e]

/-- `splice(end(), list, begin())` on a duplicate-free list: the head becomes the tail -/
theorem splice_head_end {hd : Nat} {t : List Nat} (hn : (hd :: t).Nodup) :
    LList.splice (hd :: t) none hd = t ++ [hd] := by
  rw [List.nodup_cons] at hn
  simp [LList.splice, LList.filter_ne_of_not_mem hn.1]

theorem FState.ext' {a b : FState} (h1 : a.nodes = b.nodes) (h2 : a.keyed = b.keyed)
    (h3 : a.nextNode = b.nextNode) (h4 : a.order = b.order) (h5 : a.used = b.used) (h6 : a.ub = b.ub) :
    a = b := by
  cases a; cases b; simp_all

/-! ## the invariant -/

/-- `Good cap s fr us`: no UB so far; `m_fifo_list` is `fr ++ us`, a duplicate-free arrangement of
`0 … cap-1`; the free nodes `fr` hold no key, each in-use node in `us` points at its own hash node;
the hash nodes have distinct ids, keys and list nodes, and their list nodes are exactly `us`. -/
structure Good (cap : Nat) (s : FState) (fr us : List Nat) : Prop where
  ub : s.ub = false
  cpos : 0 < cap
  nlen : s.nodes.length = cap
  list : s.order = fr ++ us
  nodup : (fr ++ us).Nodup
  len : fr.length + us.length = cap
  lt : ∀ x ∈ fr ++ us, x < cap
  used : s.used = us.length
  ids : s.keyed.Pairwise (fun a b => a.id ≠ b.id)
  idlt : ∀ n ∈ s.keyed, n.id < s.nextNode
  kkeys : s.keyed.Pairwise (fun a b => a.key ≠ b.key)
  kslots : s.keyed.Pairwise (fun a b => a.slot ≠ b.slot)
  slot_mem : ∀ n ∈ s.keyed, n.slot ∈ us
  mem_slot : ∀ x ∈ us, ∃ n ∈ s.keyed, n.slot = x
  its : ∀ n ∈ s.keyed, (s.nodes.getD n.slot default).keyedIt = some n.id
  free : ∀ x ∈ fr, (s.nodes.getD x default).keyedIt = none

/-- the entry of an in-use list node, looked up through the hash node that maps to it -/
def eOf (s : FState) (x : Nat) : Entry :=
  { key := ((s.keyed.find? (fun n => n.slot == x)).map (·.key)).getD 0, val := (s.nodes.getD x default).val }

section
variable {cap : Nat} {s : FState} {fr us : List Nat}

theorem Good.nodup_us (h : Good cap s fr us) : us.Nodup := (List.nodup_append.mp h.nodup).2.1

theorem Good.disj (h : Good cap s fr us) {x : Nat} (hf : x ∈ fr) (hu : x ∈ us) : False :=
  (List.nodup_append.mp h.nodup).2.2 x hf x hu rfl

theorem Good.lt_us (h : Good cap s fr us) {x : Nat} (hx : x ∈ us) : x < s.nodes.length := by
  rw [h.nlen]; exact h.lt x (List.mem_append_right _ hx)

theorem Good.lt_fr (h : Good cap s fr us) {x : Nat} (hx : x ∈ fr) : x < s.nodes.length := by
  rw [h.nlen]; exact h.lt x (List.mem_append_left _ hx)

theorem find_id (h : Good cap s fr us) {n : HNode} (hn : n ∈ s.keyed) :
    s.keyed.find? (fun m => m.id == n.id) = some n := by
  cases hf : s.keyed.find? (fun m => m.id == n.id) with
  | none =>
    have := List.find?_eq_none.mp hf n hn
    simp at this
  | some m =>
    have hm := List.mem_of_find?_eq_some hf
    have hs := List.find?_some hf
    simp only [beq_iff_eq] at hs
    rw [pairwise_inj h.ids hm hn hs]

theorem find_slot (h : Good cap s fr us) {n : HNode} (hn : n ∈ s.keyed) :
    s.keyed.find? (fun m => m.slot == n.slot) = some n := by
  cases hf : s.keyed.find? (fun m => m.slot == n.slot) with
  | none =>
    have := List.find?_eq_none.mp hf n hn
    simp at this
  | some m =>
    have hm := List.mem_of_find?_eq_some hf
    have hs := List.find?_some hf
    simp only [beq_iff_eq] at hs
    rw [pairwise_inj h.kslots hm hn hs]

theorem entryOf_node (h : Good cap s fr us) {n : HNode} (hn : n ∈ s.keyed) :
    entryOf s n.slot = some { key := n.key, val := (s.nodes.getD n.slot default).val } := by
  simp only [entryOf, h.its n hn, find_id h hn, Option.map_some]

theorem eOf_node (h : Good cap s fr us) {n : HNode} (hn : n ∈ s.keyed) :
    eOf s n.slot = { key := n.key, val := (s.nodes.getD n.slot default).val } := by
  simp [eOf, find_slot h hn]

theorem entryOf_used (h : Good cap s fr us) {x : Nat} (hx : x ∈ us) : entryOf s x = some (eOf s x) := by
  obtain ⟨n, hn, rfl⟩ := h.mem_slot x hx
  rw [entryOf_node h hn, eOf_node h hn]

theorem entryOf_free (h : Good cap s fr us) {x : Nat} (hx : x ∈ fr) : entryOf s x = none := by
  simp only [entryOf, h.free x hx]

theorem abs_eq (h : Good cap s fr us) : abs s = { cap := cap, ents := us.map (eOf s) } := by
  unfold abs
  have hl : s.order.length = cap := by rw [h.list, List.length_append]; exact h.len
  rw [hl, h.list, List.filterMap_append, filterMap_none (fun x hx => entryOf_free h hx),
    filterMap_some (fun x hx => entryOf_used h hx)]
  rfl

theorem key_iff (h : Good cap s fr us) {n : HNode} (hn : n ∈ s.keyed) {x : Nat} (hx : x ∈ us) :
    (eOf s x).key = n.key ↔ x = n.slot := by
  obtain ⟨m, hm, rfl⟩ := h.mem_slot x hx
  rw [eOf_node h hm]
  constructor
  · intro e
    rw [pairwise_inj h.kkeys hm hn e]
  · intro e
    rw [pairwise_inj h.kslots hm hn e]

theorem findNode_some {k : Key} {n : HNode} (hf : findNode s k = some n) : n ∈ s.keyed ∧ n.key = k := by
  unfold findNode at hf
  exact ⟨List.mem_of_find?_eq_some hf, by simpa using List.find?_some hf⟩

theorem findNode_none {k : Key} (hf : findNode s k = none) : ∀ n ∈ s.keyed, n.key ≠ k := by
  unfold findNode at hf
  intro n hn
  simpa using List.find?_eq_none.mp hf n hn

theorem key_beq (h : Good cap s fr us) {n : HNode} (hn : n ∈ s.keyed) {x : Nat} (hx : x ∈ us) :
    decide ((eOf s x).key = n.key) = (x == n.slot) := by
  have := key_iff h hn hx
  by_cases e : x = n.slot
  · rw [decide_eq_true (this.mpr e)]; simp [e]
  · have e' : ¬ (eOf s x).key = n.key := fun hh => e (this.mp hh)
    rw [decide_eq_false e']; simp [e]

theorem getE_map_some (h : Good cap s fr us) {k : Key} {n : HNode} (hf : findNode s k = some n) :
    getE (us.map (eOf s)) k = some (eOf s n.slot) := by
  obtain ⟨hn, hk⟩ := findNode_some hf
  subst hk
  unfold getE
  rw [List.find?_map]
  have : us.find? ((fun e : Entry => decide (e.key = n.key)) ∘ eOf s) = us.find? (fun x => x == n.slot) :=
    find?_congr' (fun x hx => key_beq h hn hx)
  rw [this, find?_eq_self (h.slot_mem n hn)]
  rfl

theorem getE_map_none (h : Good cap s fr us) {k : Key} (hf : findNode s k = none) :
    getE (us.map (eOf s)) k = none := by
  rw [getE_eq_none_iff]
  intro hm
  simp only [keys, List.map_map, List.mem_map, Function.comp] at hm
  obtain ⟨x, hx, hk⟩ := hm
  obtain ⟨m, hm, rfl⟩ := h.mem_slot x hx
  rw [eOf_node h hm] at hk
  exact findNode_none hf m hm hk

theorem delE_map (h : Good cap s fr us) {n : HNode} (hn : n ∈ s.keyed) :
    delE (us.map (eOf s)) n.key = (us.filter (fun x => !(x == n.slot))).map (eOf s) := by
  unfold delE
  rw [List.filter_map]
  congr 1
  apply List.filter_congr
  intro x hx
  simp only [Function.comp, key_beq h hn hx]

theorem not_mem_id_iff (h : Good cap s fr us) {n m : HNode} (hn : n ∈ s.keyed) (hm : m ∈ s.keyed) :
    (!(m.id == n.id)) = true ↔ m.slot ≠ n.slot := by
  simp only [Bool.not_eq_true', beq_eq_false_iff_ne, ne_eq]
  constructor
  · intro hid hs; exact hid (by rw [pairwise_inj h.kslots hm hn hs])
  · intro hs hid; exact hs (by rw [pairwise_inj h.ids hm hn hid])

/-! ## update in place -/

/-- the state after `do_update` of list node `i` -/
def updated (s : FState) (i : Nat) (v : Val) : FState :=
  { s with nodes := s.nodes.set i { s.nodes.getD i default with val := v } }

theorem keyedIt_updated (s : FState) {i : Nat} (hi : i < s.nodes.length) (v : Val) (x : Nat) :
    ((updated s i v).nodes.getD x default).keyedIt = (s.nodes.getD x default).keyedIt := by
  by_cases e : i = x
  · subst e
    simp only [updated, getD_set_self hi]
  · simp only [updated, getD_set_ne e]

theorem Good.update (h : Good cap s fr us) {i : Nat} (hi : i < s.nodes.length) (v : Val) :
    Good cap (updated s i v) fr us where
  ub := h.ub
  cpos := h.cpos
  nlen := by simp [updated, h.nlen]
  list := h.list
  nodup := h.nodup
  len := h.len
  lt := h.lt
  used := h.used
  ids := h.ids
  idlt := h.idlt
  kkeys := h.kkeys
  kslots := h.kslots
  slot_mem := h.slot_mem
  mem_slot := h.mem_slot
  its := by
    intro n hn
    rw [keyedIt_updated s hi]
    exact h.its n hn
  free := by
    intro x hx
    rw [keyedIt_updated s hi]
    exact h.free x hx

theorem eOf_updated_ne (s : FState) {i x : Nat} (hne : i ≠ x) (v : Val) :
    eOf (updated s i v) x = eOf s x := by
  simp only [eOf, updated, getD_set_ne hne]

theorem eOf_updated_self (s : FState) {i : Nat} (hi : i < s.nodes.length) (v : Val) :
    eOf (updated s i v) i = { eOf s i with val := v } := by
  simp only [eOf, updated, getD_set_self hi]

/-! ## `do_erase` -/

/-- the state after `do_erase` of the list node of hash node `n` -/
def erased (s : FState) (fr us : List Nat) (n : HNode) : FState :=
  { s with order := (n.slot :: fr) ++ us.filter (fun x => !(x == n.slot)),
           keyed := s.keyed.filter (fun m => !(m.id == n.id)),
           nodes := s.nodes.set n.slot { s.nodes.getD n.slot default with keyedIt := none },
           used := s.used - 1 }

theorem doErase_eq (h : Good cap s fr us) {n : HNode} (hn : n ∈ s.keyed) :
    doErase s n.slot = erased s fr us n := by
  have hu := h.slot_mem n hn
  have hlt : ¬ n.slot ≥ s.nodes.length := Nat.not_le.mpr (h.lt_us hu)
  have hit := h.its n hn
  have hc : s.order.contains n.slot = true := by
    rw [List.contains_iff_mem, h.list]; exact List.mem_append_right _ hu
  have hnf : n.slot ∉ fr := fun hf => h.disj hf hu
  have hord : (if s.order.head? ≠ some n.slot then LList.splice s.order s.order.head? n.slot else s.order)
      = (n.slot :: fr) ++ us.filter (fun x => !(x == n.slot)) := by
    rw [guarded_splice_begin, h.list, splice_begin h.nodup (List.mem_append_right _ hu),
      List.filter_append, LList.filter_ne_of_not_mem hnf]
    rfl
  have hany : s.keyed.any (fun m => m.id == n.id) = true := by
    rw [List.any_eq_true]; exact ⟨n, hn, by simp⟩
  unfold doErase
  simp only [hlt, if_false, hc, Bool.not_true, Bool.false_eq_true, hit, hord, hany, if_true]
  rfl

theorem Good.erase (h : Good cap s fr us) {n : HNode} (hn : n ∈ s.keyed) :
    Good cap (erased s fr us n) (n.slot :: fr) (us.filter (fun x => !(x == n.slot))) := by
  have hu := h.slot_mem n hn
  have hnf : n.slot ∉ fr := fun hf => h.disj hf hu
  have hp : ((n.slot :: fr) ++ us.filter (fun x => !(x == n.slot))).Perm (fr ++ us) :=
    (List.perm_middle (l₁ := fr)).symm.trans ((LList.cons_filter_perm h.nodup_us hu).append_left fr)
  have hlen := LList.length_filter_ne h.nodup_us hu
  have hlt : n.slot < s.nodes.length := h.lt_us hu
  exact {
    ub := h.ub
    cpos := h.cpos
    nlen := by simp [erased, h.nlen]
    list := rfl
    nodup := hp.nodup_iff.mpr h.nodup
    len := by have := h.len; simp only [List.length_cons]; omega
    lt := fun x hx => h.lt x (hp.mem_iff.mp hx)
    used := by show s.used - 1 = _; rw [h.used]; omega
    ids := h.ids.filter _
    idlt := fun m hm => h.idlt m (List.mem_filter.mp hm).1
    kkeys := h.kkeys.filter _
    kslots := h.kslots.filter _
    slot_mem := by
      intro m hm
      obtain ⟨hm1, hm2⟩ := List.mem_filter.mp hm
      exact LList.mem_filter_ne.mpr ⟨h.slot_mem m hm1, (not_mem_id_iff h hn hm1).mp hm2⟩
    mem_slot := by
      intro x hx
      obtain ⟨hx1, hx2⟩ := LList.mem_filter_ne.mp hx
      obtain ⟨m, hm, rfl⟩ := h.mem_slot x hx1
      exact ⟨m, List.mem_filter.mpr ⟨hm, (not_mem_id_iff h hn hm).mpr hx2⟩, rfl⟩
    its := by
      intro m hm
      obtain ⟨hm1, hm2⟩ := List.mem_filter.mp hm
      have hne : n.slot ≠ m.slot := fun e => (not_mem_id_iff h hn hm1).mp hm2 e.symm
      show ((s.nodes.set n.slot _).getD m.slot default).keyedIt = _
      rw [getD_set_ne hne]
      exact h.its m hm1
    free := by
      intro x hx
      show ((s.nodes.set n.slot _).getD x default).keyedIt = _
      rcases List.mem_cons.mp hx with rfl | hx
      · rw [getD_set_self hlt]
      · have hne : n.slot ≠ x := fun e => hnf (e ▸ hx)
        rw [getD_set_ne hne]
        exact h.free x hx }

theorem eOf_erased (h : Good cap s fr us) {n : HNode} (hn : n ∈ s.keyed) {x : Nat} (hx : x ∈ us)
    (hne : x ≠ n.slot) : eOf (erased s fr us n) x = eOf s x := by
  obtain ⟨m, hm, rfl⟩ := h.mem_slot x hx
  have hm' : m ∈ (erased s fr us n).keyed := List.mem_filter.mpr ⟨hm, (not_mem_id_iff h hn hm).mpr hne⟩
  rw [eOf_node (h.erase hn) hm', eOf_node h hm]
  show Entry.mk m.key ((s.nodes.set n.slot _).getD m.slot default).val 0 0 0 0 = _
  rw [getD_set_ne (fun e => hne e.symm)]

/-! ## `do_insert` -/

/-- the state after re-using the free head node `hd` for key `k`; `ord` is the new list -/
def pushed (s : FState) (ord : List Nat) (hd : Nat) (k : Key) (v : Val) : FState :=
  { s with order := ord, keyed := s.keyed ++ [⟨s.nextNode, k, hd⟩], nextNode := s.nextNode + 1,
           used := s.used + 1, nodes := s.nodes.set hd ⟨v, some s.nextNode⟩ }

theorem Good.push {hd : Nat} {fr' : List Nat} (h : Good cap s (hd :: fr') us) {k : Key}
    (hk : ∀ n ∈ s.keyed, n.key ≠ k) (v : Val) {ord : List Nat} (hord : ord = fr' ++ (us ++ [hd])) :
    Good cap (pushed s ord hd k v) fr' (us ++ [hd]) := by
  have hhd : hd ∉ us := fun hu => h.disj (List.mem_cons_self ..) hu
  have hn0 := h.nodup
  rw [List.cons_append, List.nodup_cons] at hn0
  have hhf : hd ∉ fr' := fun hf => hn0.1 (List.mem_append_left _ hf)
  have hlt : hd < s.nodes.length := h.lt_fr (List.mem_cons_self ..)
  have hp : (fr' ++ (us ++ [hd])).Perm ((hd :: fr') ++ us) := by
    rw [← List.append_assoc]
    exact List.perm_append_singleton _ _
  exact {
    ub := h.ub
    cpos := h.cpos
    nlen := by simp [pushed, h.nlen]
    list := hord
    nodup := hp.nodup_iff.mpr h.nodup
    len := by have := h.len; simp only [List.length_cons, List.length_append, List.length_nil] at *; omega
    lt := fun x hx => h.lt x (hp.mem_iff.mp hx)
    used := by show s.used + 1 = _; rw [h.used]; simp
    ids := by
      show (s.keyed ++ [_]).Pairwise _
      rw [List.pairwise_append]
      refine ⟨h.ids, List.pairwise_singleton _ _, ?_⟩
      intro a ha b hb
      simp only [List.mem_singleton] at hb; subst hb
      exact Nat.ne_of_lt (h.idlt a ha)
    idlt := by
      intro m hm
      show m.id < s.nextNode + 1
      rcases List.mem_append.mp hm with hm | hm
      · exact Nat.lt_succ_of_lt (h.idlt m hm)
      · simp only [List.mem_singleton] at hm; subst hm; exact Nat.lt_succ_self _
    kkeys := by
      show (s.keyed ++ [_]).Pairwise _
      rw [List.pairwise_append]
      refine ⟨h.kkeys, List.pairwise_singleton _ _, ?_⟩
      intro a ha b hb
      simp only [List.mem_singleton] at hb; subst hb
      exact hk a ha
    kslots := by
      show (s.keyed ++ [_]).Pairwise _
      rw [List.pairwise_append]
      refine ⟨h.kslots, List.pairwise_singleton _ _, ?_⟩
      intro a ha b hb
      simp only [List.mem_singleton] at hb; subst hb
      intro e
      have e' : a.slot = hd := e
      exact hhd (e' ▸ h.slot_mem a ha)
    slot_mem := by
      intro m hm
      rcases List.mem_append.mp hm with hm | hm
      · exact List.mem_append_left _ (h.slot_mem m hm)
      · simp only [List.mem_singleton] at hm; subst hm; simp
    mem_slot := by
      intro x hx
      rcases List.mem_append.mp hx with hx | hx
      · obtain ⟨m, hm, e⟩ := h.mem_slot x hx
        exact ⟨m, List.mem_append_left _ hm, e⟩
      · simp only [List.mem_singleton] at hx; subst hx
        exact ⟨_, List.mem_append_right _ (List.mem_singleton.mpr rfl), rfl⟩
    its := by
      intro m hm
      show ((s.nodes.set hd _).getD m.slot default).keyedIt = _
      rcases List.mem_append.mp hm with hm | hm
      · have hne : hd ≠ m.slot := fun e => hhd (e ▸ h.slot_mem m hm)
        rw [getD_set_ne hne]
        exact h.its m hm
      · simp only [List.mem_singleton] at hm; subst hm
        rw [getD_set_self hlt]
    free := by
      intro x hx
      show ((s.nodes.set hd _).getD x default).keyedIt = _
      have hne : hd ≠ x := fun e => hhf (e ▸ hx)
      rw [getD_set_ne hne]
      exact h.free x (List.mem_cons_of_mem _ hx) }

theorem eOf_push_old {hd : Nat} {fr' : List Nat} (h : Good cap s (hd :: fr') us) (k : Key) (v : Val)
    (ord : List Nat) {x : Nat} (hx : x ∈ us) : eOf (pushed s ord hd k v) x = eOf s x := by
  obtain ⟨m, hm, rfl⟩ := h.mem_slot x hx
  have hne : hd ≠ m.slot := fun e => h.disj (List.mem_cons_self ..) (e ▸ hx)
  simp only [eOf, pushed, List.find?_append, find_slot h hm, getD_set_ne hne, Option.some_or]

theorem eOf_push_new {hd : Nat} {fr' : List Nat} (h : Good cap s (hd :: fr') us) (k : Key) (v : Val)
    (ord : List Nat) : eOf (pushed s ord hd k v) hd = { key := k, val := v } := by
  have hlt : hd < s.nodes.length := h.lt_fr (List.mem_cons_self ..)
  have hnone : s.keyed.find? (fun n => n.slot == hd) = none := by
    rw [List.find?_eq_none]
    intro m hm
    have : m.slot ≠ hd := fun e => h.disj (List.mem_cons_self ..) (e ▸ h.slot_mem m hm)
    simp [this]
  simp only [eOf, pushed, List.find?_append, hnone, getD_set_self hlt]
  simp

/-- `do_insert` with a free head node -/
theorem doInsert_free {hd : Nat} {fr' : List Nat} (h : Good cap s (hd :: fr') us) (k : Key) (v : Val) :
    doInsert s k v = pushed s (fr' ++ (us ++ [hd])) hd k v := by
  have hlist : s.order = hd :: (fr' ++ us) := by rw [h.list]; rfl
  have hlt : ¬ hd ≥ s.nodes.length := Nat.not_le.mpr (h.lt_fr (List.mem_cons_self ..))
  have hfree := h.free hd (List.mem_cons_self ..)
  have hsp : LList.splice (hd :: (fr' ++ us)) none hd = fr' ++ (us ++ [hd]) := by
    rw [splice_head_end (by simpa using h.nodup), List.append_assoc]
  unfold doInsert
  rw [hlist]
  simp only [hlt, if_false, hfree, hsp]
  rfl

/-- `do_insert` on a full cache: the head node's key is evicted, the node re-used -/
theorem doInsert_full (h : Good cap s [] us) (k : Key) (v : Val) :
    ∃ n ∈ s.keyed, ∃ us', us = n.slot :: us' ∧
      doInsert s k v = pushed (erased s [] us n) (us' ++ [n.slot]) n.slot k v := by
  obtain ⟨hd, us', rfl⟩ : ∃ hd us', us = hd :: us' := by
    cases us with
    | nil => have := h.len; have := h.cpos; simp at *; omega
    | cons a b => exact ⟨a, b, rfl⟩
  obtain ⟨n, hn, rfl⟩ := h.mem_slot hd (List.mem_cons_self ..)
  refine ⟨n, hn, us', rfl, ?_⟩
  have hlist : s.order = n.slot :: us' := h.list
  have hlt : n.slot < s.nodes.length := h.lt_us (List.mem_cons_self ..)
  have hlt' : ¬ n.slot ≥ s.nodes.length := Nat.not_le.mpr hlt
  have hit := h.its n hn
  have hsp : LList.splice (n.slot :: us') none n.slot = us' ++ [n.slot] :=
    splice_head_end (by simpa using h.nodup)
  have hany : s.keyed.any (fun m => m.id == n.id) = true := by
    rw [List.any_eq_true]; exact ⟨n, hn, by simp⟩
  have hupos : 0 < s.used := by rw [h.used]; simp
  unfold doInsert
  rw [hlist]
  simp only [hlt', if_false, hit, hsp, hany, if_true]
  apply FState.ext'
  · simp [pushed, erased]
  · rfl
  · rfl
  · rfl
  · show s.used = s.used - 1 + 1
    omega
  · rfl

theorem doInsert_spec (h : Good cap s fr us) {k : Key} (hk : ∀ n ∈ s.keyed, n.key ≠ k) (v : Val) :
    ∃ fr' us', Good cap (doInsert s k v) fr' us' ∧
      us'.map (eOf (doInsert s k v)) =
        (if (us.map (eOf s)).length ≥ cap then (us.map (eOf s)).tail else us.map (eOf s))
          ++ [{ key := k, val := v }] := by
  cases fr with
  | cons hd fr' =>
    have hul : ¬ (us.map (eOf s)).length ≥ cap := by
      have := h.len; simp only [List.length_cons, List.length_map] at *; omega
    rw [doInsert_free h k v, if_neg hul]
    refine ⟨fr', us ++ [hd], h.push hk v rfl, ?_⟩
    rw [List.map_append]
    congr 1
    · exact List.map_congr_left (fun x hx => eOf_push_old h k v _ hx)
    · simp only [List.map_cons, List.map_nil, eOf_push_new h k v]
  | nil =>
    have hul : (us.map (eOf s)).length ≥ cap := by
      have := h.len; simp only [List.length_nil, List.length_map] at *; omega
    obtain ⟨n, hn, us', rfl, he⟩ := doInsert_full h k v
    have h1 := h.erase hn
    have hnu : n.slot ∉ us' := by
      have := h.nodup_us; rw [List.nodup_cons] at this; exact this.1
    have hfil : (n.slot :: us').filter (fun x => !(x == n.slot)) = us' := by
      simp only [List.filter_cons, beq_self_eq_true, Bool.not_true, Bool.false_eq_true, if_false]
      exact LList.filter_ne_of_not_mem hnu
    rw [hfil] at h1
    have hk1 : ∀ m ∈ (erased s [] (n.slot :: us') n).keyed, m.key ≠ k :=
      fun m hm => hk m (List.mem_filter.mp hm).1
    rw [he, if_pos hul]
    refine ⟨[], us' ++ [n.slot], h1.push hk1 v rfl, ?_⟩
    simp only [List.map_append, List.map_cons, List.map_nil, List.tail_cons]
    congr 1
    · apply List.map_congr_left
      intro x hx
      rw [eOf_push_old h1 k v _ hx]
      exact eOf_erased h hn (List.mem_cons_of_mem _ hx) (fun e => hnu (e ▸ hx))
    · simp only [eOf_push_new h1 k v]

end

/-! ## one-step simulation of the single-key primitives -/

local macro "triv" : tactic => `(tactic| first | rfl | trivial)

section
variable {cap : Nat} {s : FState} {fr us : List Nat}

theorem sim_insert1 (h : Good cap s fr us) (k : Key) (v : Val) (a : Allow) :
    (insert1 s k v a).2 = (Verif.Fifo.insert1 (abs s) k v a).2 ∧
    abs (insert1 s k v a).1 = (Verif.Fifo.insert1 (abs s) k v a).1 ∧
    ∃ fr' us', Good cap (insert1 s k v a).1 fr' us' := by
  have hub : ¬ s.ub = true := by rw [h.ub]; simp
  rw [abs_eq h]
  unfold insert1 Verif.Fifo.insert1
  rw [if_neg hub]
  cases hf : findNode s k with
  | none =>
    simp only [getE_map_none h hf]
    by_cases ha : a.ins = true
    · simp only [ha, if_true]
      obtain ⟨fr', us', hg, he⟩ := doInsert_spec h (findNode_none hf) v
      refine ⟨by triv, ?_, fr', us', hg⟩
      rw [abs_eq hg, he]
    · simp only [ha, Bool.false_eq_true, if_false]
      exact ⟨by triv, abs_eq h, fr, us, h⟩
  | some n =>
    obtain ⟨hn, hkn⟩ := findNode_some hf
    subst hkn
    have hu := h.slot_mem n hn
    simp only [getE_map_some h hf]
    by_cases ha : a.upd = true
    · have hlt : n.slot < s.nodes.length := h.lt_us hu
      have hlt' : ¬ n.slot ≥ s.nodes.length := Nat.not_le.mpr hlt
      simp only [ha, if_true, hlt', if_false]
      have hs' := h.update hlt v
      refine ⟨by triv, ?_, fr, us, hs'⟩
      show abs (updated s n.slot v) = _
      rw [abs_eq hs']
      show _ = FifoState.mk cap (Verif.Fifo.setVal (us.map (eOf s)) n.key v)
      congr 1
      unfold Verif.Fifo.setVal
      rw [List.map_map]
      apply List.map_congr_left
      intro x hx
      simp only [Function.comp]
      by_cases e : x = n.slot
      · subst e
        rw [if_pos ((key_iff h hn hx).mpr rfl), eOf_updated_self s hlt]
      · rw [if_neg (fun hh => e ((key_iff h hn hx).mp hh)), eOf_updated_ne s (fun e' => e e'.symm)]
    · simp only [ha, Bool.false_eq_true, if_false]
      exact ⟨by triv, abs_eq h, fr, us, h⟩

theorem sim_find1 (h : Good cap s fr us) (k : Key) :
    (find1 s k).2 = (Verif.Fifo.find1 (abs s) k).2 ∧
    abs (find1 s k).1 = (Verif.Fifo.find1 (abs s) k).1 ∧
    ∃ fr' us', Good cap (find1 s k).1 fr' us' := by
  have hub : ¬ s.ub = true := by rw [h.ub]; simp
  rw [abs_eq h]
  unfold find1 Verif.Fifo.find1
  rw [if_neg hub]
  cases hf : findNode s k with
  | none =>
    simp only [getE_map_none h hf]
    exact ⟨by triv, abs_eq h, fr, us, h⟩
  | some n =>
    obtain ⟨hn, hkn⟩ := findNode_some hf
    subst hkn
    have hu := h.slot_mem n hn
    have hlt : ¬ n.slot ≥ s.nodes.length := Nat.not_le.mpr (h.lt_us hu)
    simp only [getE_map_some h hf, hlt, if_false]
    exact ⟨by triv, abs_eq h, fr, us, h⟩

theorem sim_erase1 (h : Good cap s fr us) (k : Key) :
    (erase1 s k).2 = (Verif.Fifo.erase1 (abs s) k).2 ∧
    abs (erase1 s k).1 = (Verif.Fifo.erase1 (abs s) k).1 ∧
    ∃ fr' us', Good cap (erase1 s k).1 fr' us' := by
  have hub : ¬ s.ub = true := by rw [h.ub]; simp
  rw [abs_eq h]
  unfold erase1 Verif.Fifo.erase1
  rw [if_neg hub]
  cases hf : findNode s k with
  | none =>
    simp only [getE_map_none h hf]
    exact ⟨by triv, abs_eq h, fr, us, h⟩
  | some n =>
    obtain ⟨hn, hkn⟩ := findNode_some hf
    subst hkn
    simp only [getE_map_some h hf]
    rw [doErase_eq h hn]
    have hg := h.erase hn
    refine ⟨by triv, ?_, _, _, hg⟩
    rw [abs_eq hg, delE_map h hn]
    congr 1
    apply List.map_congr_left
    intro x hx
    obtain ⟨hx1, hx2⟩ := LList.mem_filter_ne.mp hx
    exact eOf_erased h hn hx1 hx2

end

/-! ## the simulation relation and the two theorems -/

def Rel (cap : Nat) (s : FState) (t : FifoState) : Prop :=
  (∃ fr us, Good cap s fr us) ∧ abs s = t

theorem good_init {cap : Nat} (hcap : 0 < cap) : Good cap (init cap) (List.range cap) [] where
  ub := rfl
  cpos := hcap
  nlen := by simp [init]
  list := by simp [init]
  nodup := by simpa using List.nodup_range
  len := by simp
  lt := by intro x hx; simpa using hx
  used := rfl
  ids := List.Pairwise.nil
  idlt := by intro n hn; cases hn
  kkeys := List.Pairwise.nil
  kslots := List.Pairwise.nil
  slot_mem := by intro n hn; cases hn
  mem_slot := by intro x hx; cases hx
  its := by intro n hn; cases hn
  free := by
    intro x hx
    have hx' : x < cap := by simpa using hx
    simp [init, List.getD_eq_getElem?_getD, hx']

theorem rel_init {cap : Nat} (hcap : 0 < cap) : Rel cap (init cap) (Verif.Fifo.init cap) :=
  ⟨⟨_, _, good_init hcap⟩, by rw [abs_eq (good_init hcap)]; rfl⟩

theorem sim (cap : Nat) : Sim core Verif.Fifo.core (Rel cap) where
  pre s t now hr := hr
  insert1 s t now k v a ttl hr := by
    obtain ⟨⟨fr, us, h⟩, rfl⟩ := hr
    obtain ⟨h1, h2, h3⟩ := sim_insert1 h k v a
    exact ⟨h1, h3, h2⟩
  find1 s t now k peek hr := by
    obtain ⟨⟨fr, us, h⟩, rfl⟩ := hr
    obtain ⟨h1, h2, h3⟩ := sim_find1 h k
    exact ⟨h1, h3, h2⟩
  erase1 s t k hr := by
    obtain ⟨⟨fr, us, h⟩, rfl⟩ := hr
    obtain ⟨h1, h2, h3⟩ := sim_erase1 h k
    exact ⟨h1, h3, h2⟩
  noClearC := rfl
  noClearD := rfl
  clean s t now hr := ⟨rfl, hr⟩
  age s t now hr := ⟨rfl, hr⟩
  updateTtl s t x hr := hr
  size s t hr := by
    obtain ⟨⟨fr, us, h⟩, rfl⟩ := hr
    show s.used = (abs s).ents.length
    rw [abs_eq h, h.used]
    simp
  capacity s t hr := by
    obtain ⟨⟨fr, us, h⟩, rfl⟩ := hr
    rfl

/-- **C08 (model part), fifo_cache**: for every capacity ≥ 1 and every history the node-level model never
splices `begin()` of an empty list, never indexes out of range, never erases through a stale hash iterator. -/
theorem no_ub (cap : Nat) (hcap : 0 < cap) (ops : List (Time × Op)) :
    (core.run (init cap) ops).1.ub = false := by
  obtain ⟨_, ⟨fr, us, h⟩, _⟩ := (sim cap).run ops _ _ (rel_init hcap)
  exact h.ub

/-- same results as the L1 model on every history; the L2 state abstracts to the L1 state -/
theorem refines_l1 (cap : Nat) (hcap : 0 < cap) (ops : List (Time × Op)) :
    (core.run (init cap) ops).2 = (Verif.Fifo.core.run (Verif.Fifo.init cap) ops).2 ∧
    abs (core.run (init cap) ops).1 = (Verif.Fifo.core.run (Verif.Fifo.init cap) ops).1 := by
  obtain ⟨h1, _, h2⟩ := (sim cap).run ops _ _ (rel_init hcap)
  exact ⟨h1, h2⟩

end Verif.L2.Fifo
