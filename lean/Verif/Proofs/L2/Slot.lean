import Verif.Concrete.Slot
import Verif.Model.Lru
import Verif.Proofs.Refine.Rec
import Verif.Proofs.L2.SlotLemmas
/-!
# L2 `lru_cache` / `mru_cache`: no undefined behaviour on any history, refinement of the L1 model
-/
namespace Verif.L2.Slot
open Verif

/-- the in-use prefix of the list: the nodes before `m_lru_end` -/
def usedPrefix (s : LState) : List Nat :=
  match s.lruEnd with
  | none => s.lruList
  | some e => s.lruList.takeWhile (fun x => !(x == e))

def entryOf (s : LState) (slot : Nat) : Entry :=
  { key := ((s.keyed.find? (fun n => n.slot == slot)).map (·.key)).getD 0, val := (s.slots.getD slot default).val }

/-- the L1 state: lru keeps most-recent-first (L1: least recent first, so reversed); mru keeps oldest first -/
def abs (s : LState) : RecState :=
  { cap := s.slots.length,
    ents := match s.fl with
      | .lru => (usedPrefix s).reverse.map (entryOf s)
      | .mru => (usedPrefix s).map (entryOf s) }

def l1core : Flavour → Core RecState
  | .lru => Lru.core
  | .mru => Mru.core


/-! ## the invariant -/

/-- pairwise distinct images: injective on members -/
theorem pairwise_inj {α : Type} {g : α → Nat} {l : List α} (h : l.Pairwise (fun a b => g a ≠ g b))
    {a b : α} (ha : a ∈ l) (hb : b ∈ l) (e : g a = g b) : a = b := by
  induction l with
  | nil => cases ha
  | cons x t ih =>
    rw [List.pairwise_cons] at h
    rcases List.mem_cons.mp ha with rfl | ha'
    · rcases List.mem_cons.mp hb with rfl | hb'
      · rfl
      · exact absurd e (h.1 _ hb')
    · rcases List.mem_cons.mp hb with rfl | hb'
      · exact absurd e.symm (h.1 _ ha')
      · exact ih h.2 ha' hb'

/-- `Good cap s u f`: no UB so far; `m_lru_list` is `u ++ f`, a duplicate-free arrangement of
`0 … cap-1`; `u` is the in-use prefix, `m_lru_end` points at the head of `f`; the hash nodes have distinct
ids, keys and slots; their slots are exactly `u`; and each in-use slot points back at its own list node
and its own hash node. -/
structure Good (cap : Nat) (s : LState) (u f : List Nat) : Prop where
  ub : s.ub = false
  cpos : 0 < cap
  slen : s.slots.length = cap
  list : s.lruList = u ++ f
  nodup : (u ++ f).Nodup
  len : u.length + f.length = cap
  lt : ∀ x ∈ u ++ f, x < cap
  lend : s.lruEnd = f.head?
  used : s.used = u.length
  ids : s.keyed.Pairwise (fun a b => a.id ≠ b.id)
  idlt : ∀ n ∈ s.keyed, n.id < s.nextNode
  kkeys : s.keyed.Pairwise (fun a b => a.key ≠ b.key)
  kslots : s.keyed.Pairwise (fun a b => a.slot ≠ b.slot)
  slot_mem : ∀ n ∈ s.keyed, n.slot ∈ u
  mem_slot : ∀ x ∈ u, ∃ n ∈ s.keyed, n.slot = x
  its : ∀ n ∈ s.keyed, (s.slots.getD n.slot default).lruIt = n.slot ∧
    (s.slots.getD n.slot default).keyedIt = n.id

/-- the order in which `abs` lists the in-use slots -/
def ord : Flavour → List Nat → List Nat
  | .lru, u => u.reverse
  | .mru, u => u

theorem mem_ord {fl : Flavour} {u : List Nat} {x : Nat} : x ∈ ord fl u ↔ x ∈ u := by
  cases fl <;> simp [ord]

section
variable {cap : Nat} {s : LState} {u f : List Nat}

theorem Good.nodup_u (h : Good cap s u f) : u.Nodup := (List.nodup_append.mp h.nodup).1

theorem Good.lt_u (h : Good cap s u f) {x : Nat} (hx : x ∈ u) : x < s.slots.length := by
  rw [h.slen]; exact h.lt x (List.mem_append_left _ hx)

theorem usedPrefix_eq (h : Good cap s u f) : usedPrefix s = u := by
  unfold usedPrefix
  rw [h.lend, h.list]
  cases hf : f.head? with
  | none =>
    cases f with
    | nil => simp
    | cons a b => simp at hf
  | some p => exact LList.takeWhile_partition h.nodup hf

theorem abs_eq (h : Good cap s u f) :
    abs s = { cap := cap, ents := (ord s.fl u).map (entryOf s) } := by
  unfold abs
  rw [usedPrefix_eq h, h.slen]
  cases s.fl <;> rfl

theorem find_slot (h : Good cap s u f) {n : HNode} (hn : n ∈ s.keyed) :
    s.keyed.find? (fun m => m.slot == n.slot) = some n := by
  cases hf : s.keyed.find? (fun m => m.slot == n.slot) with
  | none =>
    have := List.find?_eq_none.mp hf n hn
    simp at this
  | some m =>
    have hm := List.mem_of_find?_eq_some hf
    have hs := List.find?_some hf
    simp only [beq_iff_eq] at hs
    rw [pairwise_inj h.kslots hm hn hs]

theorem entryOf_node (h : Good cap s u f) {n : HNode} (hn : n ∈ s.keyed) :
    entryOf s n.slot = { key := n.key, val := (s.slots.getD n.slot default).val } := by
  simp [entryOf, find_slot h hn]

theorem key_iff (h : Good cap s u f) {n : HNode} (hn : n ∈ s.keyed) {x : Nat} (hx : x ∈ u) :
    (entryOf s x).key = n.key ↔ x = n.slot := by
  obtain ⟨m, hm, rfl⟩ := h.mem_slot x hx
  rw [entryOf_node h hm]
  constructor
  · intro e
    rw [pairwise_inj h.kkeys hm hn e]
  · intro e
    rw [pairwise_inj h.kslots hm hn e]

theorem findNode_some {k : Key} {n : HNode} (hf : findNode s k = some n) : n ∈ s.keyed ∧ n.key = k := by
  unfold findNode at hf
  exact ⟨List.mem_of_find?_eq_some hf, by simpa using List.find?_some hf⟩

theorem findNode_none {k : Key} (hf : findNode s k = none) : ∀ n ∈ s.keyed, n.key ≠ k := by
  unfold findNode at hf
  intro n hn
  simpa using List.find?_eq_none.mp hf n hn

theorem find?_eq_self {l : List Nat} {i : Nat} (hi : i ∈ l) : l.find? (fun x => x == i) = some i := by
  induction l with
  | nil => cases hi
  | cons a t ih =>
    by_cases e : a = i
    · simp [e]
    · have : i ∈ t := by
        rcases List.mem_cons.mp hi with e' | e'
        · exact absurd e'.symm e
        · exact e'
      simp [e, ih this]

theorem find?_congr' {α : Type} {p q : α → Bool} {l : List α} (h : ∀ x ∈ l, p x = q x) :
    l.find? p = l.find? q := by
  induction l with
  | nil => rfl
  | cons a t ih =>
    simp only [List.find?_cons, h a (by simp)]
    rw [ih (fun x hx => h x (List.mem_cons_of_mem _ hx))]

theorem key_beq (h : Good cap s u f) {n : HNode} (hn : n ∈ s.keyed) {x : Nat} (hx : x ∈ u) :
    decide ((entryOf s x).key = n.key) = (x == n.slot) := by
  have := key_iff h hn hx
  by_cases e : x = n.slot
  · rw [decide_eq_true (this.mpr e)]; simp [e]
  · have e' : ¬ (entryOf s x).key = n.key := fun hh => e (this.mp hh)
    rw [decide_eq_false e']; simp [e]

theorem getE_map_some (h : Good cap s u f) {l : List Nat} (hl : ∀ x ∈ l, x ∈ u) {k : Key} {n : HNode}
    (hf : findNode s k = some n) (hnl : n.slot ∈ l) :
    getE (l.map (entryOf s)) k = some (entryOf s n.slot) := by
  obtain ⟨hn, hk⟩ := findNode_some hf
  subst hk
  unfold getE
  rw [List.find?_map]
  have : l.find? ((fun e : Entry => decide (e.key = n.key)) ∘ entryOf s) = l.find? (fun x => x == n.slot) :=
    find?_congr' (fun x hx => key_beq h hn (hl x hx))
  rw [this, find?_eq_self hnl]
  rfl

theorem getE_map_none (h : Good cap s u f) {l : List Nat} (hl : ∀ x ∈ l, x ∈ u) {k : Key}
    (hf : findNode s k = none) : getE (l.map (entryOf s)) k = none := by
  rw [getE_eq_none_iff]
  intro hm
  simp only [keys, List.map_map, List.mem_map, Function.comp] at hm
  obtain ⟨x, hx, hk⟩ := hm
  obtain ⟨m, hm, rfl⟩ := h.mem_slot x (hl x hx)
  rw [entryOf_node h hm] at hk
  exact findNode_none hf m hm hk

theorem delE_map (h : Good cap s u f) {l : List Nat} (hl : ∀ x ∈ l, x ∈ u) {n : HNode} (hn : n ∈ s.keyed) :
    delE (l.map (entryOf s)) n.key = (l.filter (fun x => !(x == n.slot))).map (entryOf s) := by
  unfold delE
  rw [List.filter_map]
  congr 1
  apply List.filter_congr
  intro x hx
  simp only [Function.comp, key_beq h hn (hl x hx)]

end

/-! ## the primitives as explicit state updates -/

theorem getD_set_self {l : List LSlot} {i : Nat} (hi : i < l.length) (x d : LSlot) :
    (l.set i x).getD i d = x := by
  simp [List.getD_eq_getElem?_getD, hi]

theorem getD_set_ne {l : List LSlot} {i j : Nat} (hne : i ≠ j) (x d : LSlot) :
    (l.set i x).getD j d = l.getD j d := by
  simp [List.getD_eq_getElem?_getD, hne]

/-- where `do_access` puts slot `i` within the in-use prefix -/
def acc : Flavour → List Nat → Nat → List Nat
  | .lru, u, i => i :: u.filter (fun x => !(x == i))
  | .mru, u, i => u.filter (fun x => !(x == i)) ++ [i]

theorem acc_perm {fl : Flavour} {u : List Nat} {i : Nat} (hn : u.Nodup) (hi : i ∈ u) :
    (acc fl u i).Perm u := by
  cases fl
  · exact LList.cons_filter_perm hn hi
  · exact LList.filter_snoc_perm hn hi

theorem ord_acc (fl : Flavour) (u : List Nat) (i : Nat) :
    ord fl (acc fl u i) = (ord fl u).filter (fun x => !(x == i)) ++ [i] := by
  cases fl
  · simp [ord, acc, List.filter_reverse]
  · rfl

theorem ord_filter (fl : Flavour) (u : List Nat) (p : Nat → Bool) :
    ord fl (u.filter p) = (ord fl u).filter p := by
  cases fl
  · simp [ord, List.filter_reverse]
  · rfl

/-- where `do_insert` puts the new slot -/
def ins : Flavour → List Nat → Nat → List Nat
  | .lru, u, i => i :: u
  | .mru, u, i => u ++ [i]

theorem ord_ins (fl : Flavour) (u : List Nat) (i : Nat) : ord fl (ins fl u i) = ord fl u ++ [i] := by
  cases fl
  · simp [ord, ins]
  · rfl

def vicOf : Flavour → Rec.Victim
  | .lru => .oldest
  | .mru => .newest

theorem l1core_eq (fl : Flavour) : l1core fl = Rec.core (vicOf fl) := by
  cases fl <;> rfl

/-- evicting the last in-use node is the L1 `prune` -/
theorem prune_ord (fl : Flavour) {u : List Nat} {i : Nat} (hn : u.Nodup) (hl : u.getLast? = some i)
    (g : Nat → Entry) :
    Rec.prune (vicOf fl) ((ord fl u).map g) = (ord fl (u.filter (fun x => !(x == i)))).map g := by
  rw [LList.filter_ne_eq_dropLast hn hl]
  obtain ⟨d, rfl⟩ := List.getLast?_eq_some_iff.mp hl
  cases fl
  · simp [ord, vicOf, Rec.prune]
  · simp [ord, vicOf, Rec.prune]

section
variable {cap : Nat} {s : LState} {u f : List Nat}

theorem Good.lruIt (h : Good cap s u f) {i : Nat} (hi : i ∈ u) : (s.slots.getD i default).lruIt = i := by
  obtain ⟨n, hn, rfl⟩ := h.mem_slot i hi
  exact (h.its n hn).1

/-- permuting the in-use prefix keeps the invariant -/
theorem Good.perm (h : Good cap s u f) {u' : List Nat} (hp : u'.Perm u) :
    Good cap { s with lruList := u' ++ f } u' f where
  ub := h.ub
  cpos := h.cpos
  slen := h.slen
  list := rfl
  nodup := ((hp.append_right f).nodup_iff).mpr h.nodup
  len := by rw [hp.length_eq]; exact h.len
  lt := fun x hx => h.lt x (((hp.append_right f).mem_iff).mp hx)
  lend := h.lend
  used := h.used.trans hp.length_eq.symm
  ids := h.ids
  idlt := h.idlt
  kkeys := h.kkeys
  kslots := h.kslots
  slot_mem := fun n hn => hp.mem_iff.mpr (h.slot_mem n hn)
  mem_slot := fun x hx => h.mem_slot x (hp.mem_iff.mp hx)
  its := h.its

theorem doAccess_eq (h : Good cap s u f) {i : Nat} (hi : i ∈ u) :
    doAccess s i = { s with lruList := acc s.fl u i ++ f } := by
  have hit := h.lruIt hi
  have hc : s.lruList.contains i = true := by
    rw [List.contains_iff_mem, h.list]; exact List.mem_append_left _ hi
  unfold doAccess
  simp only [hit, hc, Bool.not_true, Bool.false_eq_true, if_false]
  rw [h.list, h.lend]
  cases s.fl
  · simp only [acc]
    rw [LList.splice_front h.nodup hi]
  · simp only [acc]
    rw [LList.splice_partition h.nodup hi]; simp

theorem Good.access (h : Good cap s u f) {i : Nat} (hi : i ∈ u) :
    Good cap (doAccess s i) (acc s.fl u i) f := by
  rw [doAccess_eq h hi]
  exact h.perm (acc_perm h.nodup_u hi)

/-- overwriting the value of a slot keeps the invariant -/
theorem Good.setVal (h : Good cap s u f) (i : Nat) (v : Val) :
    Good cap { s with slots := s.slots.set i { s.slots.getD i default with val := v } } u f where
  ub := h.ub
  cpos := h.cpos
  slen := by simp [h.slen]
  list := h.list
  nodup := h.nodup
  len := h.len
  lt := h.lt
  lend := h.lend
  used := h.used
  ids := h.ids
  idlt := h.idlt
  kkeys := h.kkeys
  kslots := h.kslots
  slot_mem := h.slot_mem
  mem_slot := h.mem_slot
  its := by
    intro n hn
    have := h.its n hn
    by_cases e : i = n.slot
    · subst e
      have hi : n.slot < s.slots.length := h.lt_u (h.slot_mem n hn)
      simp only [getD_set_self hi]
      exact this
    · simp only [getD_set_ne e]
      exact this

end

section
variable {cap : Nat} {s : LState} {u f : List Nat}

/-- the state after `do_erase` of an in-use slot -/
def erased (s : LState) (u f : List Nat) (n : HNode) : LState :=
  { s with lruList := u.filter (fun x => !(x == n.slot)) ++ n.slot :: f,
           lruEnd := some n.slot,
           keyed := s.keyed.filter (fun m => !(m.id == n.id)),
           used := s.used - 1 }

theorem doErase_eq (h : Good cap s u f) {n : HNode} (hn : n ∈ s.keyed) :
    doErase s n.slot = erased s u f n := by
  have hu := h.slot_mem n hn
  have hlt : ¬ n.slot ≥ s.slots.length := Nat.not_le.mpr (h.lt_u hu)
  have hit := h.its n hn
  have hc : s.lruList.contains n.slot = true := by
    rw [List.contains_iff_mem, h.list]; exact List.mem_append_left _ hu
  obtain ⟨last, hlast⟩ : ∃ last, u.getLast? = some last := by
    cases hg : u.getLast? with
    | none => rw [List.getLast?_eq_none_iff] at hg; subst hg; cases hu
    | some x => exact ⟨x, rfl⟩
  have hprev : LList.prev s.lruList s.lruEnd = some last := by
    rw [h.list, h.lend, LList.prev_partition h.nodup, hlast]
  have hl : (if n.slot ≠ last then LList.splice s.lruList s.lruEnd n.slot else s.lruList)
      = u.filter (fun x => !(x == n.slot)) ++ n.slot :: f := by
    rw [h.list, h.lend]
    by_cases e : n.slot = last
    · subst e
      simp only [ne_eq, not_true_eq_false, if_false]
      conv => lhs; rw [LList.eq_filter_snoc_of_getLast? h.nodup_u hlast]
      simp
    · simp only [ne_eq, e, not_false_eq_true, if_true]
      exact LList.splice_partition h.nodup hu
  have hnd : ((u.filter (fun x => !(x == n.slot)) ++ [n.slot]) ++ f).Nodup :=
    ((LList.filter_snoc_perm h.nodup_u hu).append_right f).nodup_iff.mpr h.nodup
  have hprev2 : LList.prev (u.filter (fun x => !(x == n.slot)) ++ n.slot :: f) s.lruEnd = some n.slot := by
    have := LList.prev_partition hnd
    rw [h.lend]
    simpa using this
  have hany : s.keyed.any (fun m => m.id == n.id) = true := by
    rw [List.any_eq_true]; exact ⟨n, hn, by simp⟩
  unfold doErase
  simp only [hlt, if_false, hprev, hit.1, hc, Bool.not_true, Bool.false_eq_true, hl, hprev2, hany, if_true,
    hit.2]
  rfl

theorem not_mem_id_iff (h : Good cap s u f) {n m : HNode} (hn : n ∈ s.keyed) (hm : m ∈ s.keyed) :
    (!(m.id == n.id)) = true ↔ m.slot ≠ n.slot := by
  simp only [Bool.not_eq_true', beq_eq_false_iff_ne, ne_eq]
  constructor
  · intro hid hs; exact hid (by rw [pairwise_inj h.kslots hm hn hs])
  · intro hs hid; exact hs (by rw [pairwise_inj h.ids hm hn hid])

theorem Good.erase (h : Good cap s u f) {n : HNode} (hn : n ∈ s.keyed) :
    Good cap (erased s u f n) (u.filter (fun x => !(x == n.slot))) (n.slot :: f) := by
  have hu := h.slot_mem n hn
  have hp : (u.filter (fun x => !(x == n.slot)) ++ n.slot :: f).Perm (u ++ f) :=
    List.perm_middle.trans ((LList.cons_filter_perm h.nodup_u hu).append_right f)
  have hlen := LList.length_filter_ne h.nodup_u hu
  exact {
    ub := h.ub
    cpos := h.cpos
    slen := h.slen
    list := rfl
    nodup := hp.nodup_iff.mpr h.nodup
    len := by have := h.len; simp only [List.length_cons]; omega
    lt := fun x hx => h.lt x (hp.mem_iff.mp hx)
    lend := rfl
    used := by show s.used - 1 = _; rw [h.used]; omega
    ids := h.ids.filter _
    idlt := fun m hm => h.idlt m (List.mem_filter.mp hm).1
    kkeys := h.kkeys.filter _
    kslots := h.kslots.filter _
    slot_mem := by
      intro m hm
      obtain ⟨hm1, hm2⟩ := List.mem_filter.mp hm
      exact LList.mem_filter_ne.mpr ⟨h.slot_mem m hm1, (not_mem_id_iff h hn hm1).mp hm2⟩
    mem_slot := by
      intro x hx
      obtain ⟨hx1, hx2⟩ := LList.mem_filter_ne.mp hx
      obtain ⟨m, hm, rfl⟩ := h.mem_slot x hx1
      exact ⟨m, List.mem_filter.mpr ⟨hm, (not_mem_id_iff h hn hm).mpr hx2⟩, rfl⟩
    its := fun m hm => h.its m (List.mem_filter.mp hm).1 }

/-- the state after claiming the first free slot `idx` for key `k` (before `do_access`) -/
def pushNode (s : LState) (k : Key) (v : Val) (idx : Nat) : LState :=
  { s with keyed := s.keyed ++ [⟨s.nextNode, k, idx⟩], nextNode := s.nextNode + 1,
           slots := s.slots.set idx ⟨v, idx, s.nextNode⟩,
           lruEnd := LList.next s.lruList idx, used := s.used + 1 }

theorem Good.push {idx : Nat} {r : List Nat} (h : Good cap s u (idx :: r)) {k : Key}
    (hk : ∀ n ∈ s.keyed, n.key ≠ k) (v : Val) :
    Good cap (pushNode s k v idx) (u ++ [idx]) r := by
  have hidx : idx ∉ u := LList.head_not_mem h.nodup rfl
  have hlt : idx < s.slots.length := by rw [h.slen]; exact h.lt idx (by simp)
  have hassoc : (u ++ [idx]) ++ r = u ++ idx :: r := by simp
  exact {
    ub := h.ub
    cpos := h.cpos
    slen := by simp [pushNode, h.slen]
    list := by rw [hassoc]; exact h.list
    nodup := by rw [hassoc]; exact h.nodup
    len := by have := h.len; simp only [List.length_cons, List.length_append, List.length_nil] at *; omega
    lt := by rw [hassoc]; exact h.lt
    lend := by
      show LList.next s.lruList idx = r.head?
      rw [h.list]; exact LList.next_partition h.nodup rfl
    used := by show s.used + 1 = _; rw [h.used]; simp
    ids := by
      show (s.keyed ++ [_]).Pairwise _
      rw [List.pairwise_append]
      refine ⟨h.ids, List.pairwise_singleton _ _, ?_⟩
      intro a ha b hb
      simp only [List.mem_singleton] at hb; subst hb
      exact Nat.ne_of_lt (h.idlt a ha)
    idlt := by
      intro m hm
      show m.id < s.nextNode + 1
      rcases List.mem_append.mp hm with hm | hm
      · exact Nat.lt_succ_of_lt (h.idlt m hm)
      · simp only [List.mem_singleton] at hm; subst hm; exact Nat.lt_succ_self _
    kkeys := by
      show (s.keyed ++ [_]).Pairwise _
      rw [List.pairwise_append]
      refine ⟨h.kkeys, List.pairwise_singleton _ _, ?_⟩
      intro a ha b hb
      simp only [List.mem_singleton] at hb; subst hb
      exact hk a ha
    kslots := by
      show (s.keyed ++ [_]).Pairwise _
      rw [List.pairwise_append]
      refine ⟨h.kslots, List.pairwise_singleton _ _, ?_⟩
      intro a ha b hb
      simp only [List.mem_singleton] at hb; subst hb
      intro e
      have e' : a.slot = idx := e
      exact hidx (e' ▸ h.slot_mem a ha)
    slot_mem := by
      intro m hm
      rcases List.mem_append.mp hm with hm | hm
      · exact List.mem_append_left _ (h.slot_mem m hm)
      · simp only [List.mem_singleton] at hm; subst hm; simp
    mem_slot := by
      intro x hx
      rcases List.mem_append.mp hx with hx | hx
      · obtain ⟨m, hm, e⟩ := h.mem_slot x hx
        exact ⟨m, List.mem_append_left _ hm, e⟩
      · simp only [List.mem_singleton] at hx; subst hx
        exact ⟨_, List.mem_append_right _ (List.mem_singleton.mpr rfl), rfl⟩
    its := by
      intro m hm
      show ((s.slots.set idx _).getD m.slot default).lruIt = _ ∧ ((s.slots.set idx _).getD m.slot default).keyedIt = _
      rcases List.mem_append.mp hm with hm | hm
      · have hne : idx ≠ m.slot := fun e => hidx (e ▸ h.slot_mem m hm)
        rw [getD_set_ne hne]
        exact h.its m hm
      · simp only [List.mem_singleton] at hm; subst hm
        rw [getD_set_self hlt]
        exact ⟨rfl, rfl⟩ }

end

/-! ## `entryOf` across the state updates -/

theorem ord_length (fl : Flavour) (u : List Nat) : (ord fl u).length = u.length := by
  cases fl <;> simp [ord]

theorem entryOf_set_ne (s : LState) {i x : Nat} (hne : i ≠ x) (y : LSlot) :
    entryOf { s with slots := s.slots.set i y } x = entryOf s x := by
  simp only [entryOf, getD_set_ne hne]

theorem entryOf_set_self (s : LState) {i : Nat} (hi : i < s.slots.length) (y : LSlot) :
    entryOf { s with slots := s.slots.set i y } i = { entryOf s i with val := y.val } := by
  simp only [entryOf, getD_set_self hi]

section
variable {cap : Nat} {s : LState} {u f : List Nat}

theorem entryOf_doAccess (h : Good cap s u f) {i : Nat} (hi : i ∈ u) (x : Nat) :
    entryOf (doAccess s i) x = entryOf s x := by
  rw [doAccess_eq h hi]; rfl

theorem fl_doAccess (h : Good cap s u f) {i : Nat} (hi : i ∈ u) : (doAccess s i).fl = s.fl := by
  rw [doAccess_eq h hi]

theorem entryOf_erased (h : Good cap s u f) {n : HNode} (hn : n ∈ s.keyed) {x : Nat} (hx : x ∈ u)
    (hne : x ≠ n.slot) : entryOf (erased s u f n) x = entryOf s x := by
  obtain ⟨m, hm, rfl⟩ := h.mem_slot x hx
  have hm' : m ∈ (erased s u f n).keyed := List.mem_filter.mpr ⟨hm, (not_mem_id_iff h hn hm).mpr hne⟩
  rw [entryOf_node (h.erase hn) hm', entryOf_node h hm]
  rfl

theorem entryOf_push_old {idx : Nat} {r : List Nat} (h : Good cap s u (idx :: r)) {k : Key}
    (hk : ∀ n ∈ s.keyed, n.key ≠ k) (v : Val) {x : Nat} (hx : x ∈ u) :
    entryOf (pushNode s k v idx) x = entryOf s x := by
  obtain ⟨m, hm, rfl⟩ := h.mem_slot x hx
  have hm' : m ∈ (pushNode s k v idx).keyed := List.mem_append_left _ hm
  have hne : idx ≠ m.slot := fun e => LList.head_not_mem h.nodup rfl (e ▸ hx)
  rw [entryOf_node (h.push hk v) hm', entryOf_node h hm]
  show Entry.mk m.key ((s.slots.set idx _).getD m.slot default).val 0 0 0 0 = _
  rw [getD_set_ne hne]

theorem entryOf_push_new {idx : Nat} {r : List Nat} (h : Good cap s u (idx :: r)) {k : Key}
    (hk : ∀ n ∈ s.keyed, n.key ≠ k) (v : Val) :
    entryOf (pushNode s k v idx) idx = { key := k, val := v } := by
  have hlt : idx < s.slots.length := by rw [h.slen]; exact h.lt idx (by simp)
  have hm' : (⟨s.nextNode, k, idx⟩ : HNode) ∈ (pushNode s k v idx).keyed :=
    List.mem_append_right _ (List.mem_singleton.mpr rfl)
  have := entryOf_node (h.push hk v) hm'
  rw [show (HNode.mk s.nextNode k idx).slot = idx from rfl] at this
  rw [this]
  show Entry.mk k ((s.slots.set idx _).getD idx default).val 0 0 0 0 = _
  rw [getD_set_self hlt]

/-! ## `do_insert` -/

def finishInsert (fl : Flavour) (s2 : LState) (idx : Nat) : LState :=
  match fl with
  | .lru => doAccess s2 idx
  | .mru => s2

theorem doInsert_eq {s s1 : LState} {u1 r : List Nat} {idx : Nat} (h1 : Good cap s1 u1 (idx :: r))
    (hs1 : (if s.used ≥ s.slots.length then doPrune s else s) = s1) (k : Key) (v : Val) :
    doInsert s k v = finishInsert s.fl (pushNode s1 k v idx) idx := by
  have hlt : ¬ idx ≥ s1.slots.length := by
    rw [h1.slen]; exact Nat.not_le.mpr (h1.lt idx (by simp))
  have hend : s1.lruEnd = some idx := h1.lend
  have hub : ¬ s1.ub = true := by rw [h1.ub]; simp
  unfold doInsert
  simp only [hs1]
  rw [if_neg hub]
  simp only [hend, hlt, if_false]
  rfl

theorem finish_spec {idx : Nat} {r : List Nat} (h : Good cap s u (idx :: r)) {k : Key}
    (hk : ∀ n ∈ s.keyed, n.key ≠ k) (v : Val) :
    Good cap (finishInsert s.fl (pushNode s k v idx) idx) (ins s.fl u idx) r ∧
    (finishInsert s.fl (pushNode s k v idx) idx).fl = s.fl ∧
    (ord s.fl (ins s.fl u idx)).map (entryOf (finishInsert s.fl (pushNode s k v idx) idx)) =
      (ord s.fl u).map (entryOf s) ++ [{ key := k, val := v }] := by
  have h2 := h.push hk v
  have hidx : idx ∉ u := LList.head_not_mem h.nodup rfl
  have hmem : idx ∈ u ++ [idx] := by simp
  have hfl2 : (pushNode s k v idx).fl = s.fl := rfl
  have hent : ∀ x, entryOf (finishInsert s.fl (pushNode s k v idx) idx) x = entryOf (pushNode s k v idx) x := by
    intro x
    cases hfl : s.fl
    · exact entryOf_doAccess h2 hmem x
    · rfl
  refine ⟨?_, ?_, ?_⟩
  · cases hfl : s.fl
    · have := h2.access hmem
      rw [hfl2, hfl] at this
      have e : acc Flavour.lru (u ++ [idx]) idx = ins Flavour.lru u idx := by
        simp [acc, ins, List.filter_append, LList.filter_ne_of_not_mem hidx]
      rw [e] at this
      exact this
    · exact h2
  · cases hfl : s.fl
    · show (doAccess _ _).fl = _
      rw [fl_doAccess h2 hmem]; exact hfl
    · exact hfl
  · rw [ord_ins, List.map_append]
    congr 1
    · apply List.map_congr_left
      intro x hx
      rw [hent, entryOf_push_old h hk v (mem_ord.mp hx)]
    · simp only [List.map_cons, List.map_nil, hent, entryOf_push_new h hk v]

theorem doPrune_eq (h : Good cap s u []) :
    ∃ n ∈ s.keyed, u.getLast? = some n.slot ∧ doPrune s = erased s u [] n := by
  have hlen : u.length = cap := by have := h.len; simpa using this
  have hpos : 0 < s.used := by rw [h.used, hlen]; exact h.cpos
  obtain ⟨i, hi⟩ : ∃ i, u.getLast? = some i := by
    cases hg : u.getLast? with
    | none =>
      rw [List.getLast?_eq_none_iff] at hg; subst hg
      have := h.cpos; simp at hlen; omega
    | some x => exact ⟨x, rfl⟩
  have hiu : i ∈ u := by
    obtain ⟨d, rfl⟩ := List.getLast?_eq_some_iff.mp hi; simp
  obtain ⟨n, hn, rfl⟩ := h.mem_slot i hiu
  refine ⟨n, hn, hi, ?_⟩
  have hl : s.lruList.getLast? = some n.slot := by rw [h.list]; simpa using hi
  unfold doPrune
  simp only [gt_iff_lt, hpos, if_true, hl]
  exact doErase_eq h hn

theorem doInsert_spec (h : Good cap s u f) {k : Key} (hk : ∀ n ∈ s.keyed, n.key ≠ k) (v : Val) :
    ∃ u' f', Good cap (doInsert s k v) u' f' ∧ (doInsert s k v).fl = s.fl ∧
      (ord s.fl u').map (entryOf (doInsert s k v)) =
        (if ((ord s.fl u).map (entryOf s)).length ≥ cap
          then Rec.prune (vicOf s.fl) ((ord s.fl u).map (entryOf s))
          else (ord s.fl u).map (entryOf s)) ++ [{ key := k, val := v }] := by
  by_cases hfull : s.used ≥ s.slots.length
  · have hul : u.length ≥ cap := by rw [← h.used, ← h.slen]; exact hfull
    have hf : f = [] := by
      have := h.len
      cases f with
      | nil => rfl
      | cons a b => simp at this; omega
    subst hf
    obtain ⟨n, hn, hlast, hpr⟩ := doPrune_eq h
    have h1 := h.erase hn
    have hs1 : (if s.used ≥ s.slots.length then doPrune s else s) = erased s u [] n := by
      rw [if_pos hfull, hpr]
    have hk1 : ∀ m ∈ (erased s u [] n).keyed, m.key ≠ k :=
      fun m hm => hk m (List.mem_filter.mp hm).1
    have hfl1 : (erased s u [] n).fl = s.fl := rfl
    obtain ⟨hg, hfl, he⟩ := finish_spec h1 hk1 v
    rw [hfl1] at hg hfl he
    rw [← doInsert_eq h1 hs1 k v] at hg hfl he
    refine ⟨_, _, hg, hfl, ?_⟩
    rw [he, List.length_map, ord_length, if_pos hul, prune_ord s.fl h.nodup_u hlast]
    congr 1
    apply List.map_congr_left
    intro x hx
    obtain ⟨hx1, hx2⟩ := LList.mem_filter_ne.mp (mem_ord.mp hx)
    exact entryOf_erased h hn hx1 hx2
  · have hul : ¬ u.length ≥ cap := by rw [← h.used, ← h.slen]; exact hfull
    obtain ⟨idx, r, rfl⟩ : ∃ idx r, f = idx :: r := by
      have := h.len
      cases f with
      | nil => simp at this; omega
      | cons a b => exact ⟨a, b, rfl⟩
    have hs1 : (if s.used ≥ s.slots.length then doPrune s else s) = s := by rw [if_neg hfull]
    obtain ⟨hg, hfl, he⟩ := finish_spec h hk v
    rw [← doInsert_eq h hs1 k v] at hg hfl he
    refine ⟨_, _, hg, hfl, ?_⟩
    rw [he, List.length_map, ord_length, if_neg hul]

end

/-! ## one-step simulation of the single-key primitives -/

local macro "triv" : tactic => `(tactic| first | rfl | trivial)

section
variable {cap : Nat} {s : LState} {u f : List Nat}

theorem abs_of {s' : LState} {u' f' : List Nat} (h' : Good cap s' u' f') {fl : Flavour} (hfl : s'.fl = fl)
    {ents : List Entry} (he : (ord fl u').map (entryOf s') = ents) :
    abs s' = { cap := cap, ents := ents } := by
  rw [abs_eq h', hfl, he]

theorem sim_insert1 (h : Good cap s u f) (k : Key) (v : Val) (a : Allow) :
    (insert1 s k v a).2 = (Rec.insert1 (vicOf s.fl) (abs s) k v a).2 ∧
    abs (insert1 s k v a).1 = (Rec.insert1 (vicOf s.fl) (abs s) k v a).1 ∧
    (insert1 s k v a).1.fl = s.fl ∧ ∃ u' f', Good cap (insert1 s k v a).1 u' f' := by
  have hmem : ∀ x ∈ ord s.fl u, x ∈ u := fun x hx => mem_ord.mp hx
  have hub : ¬ s.ub = true := by rw [h.ub]; simp
  rw [abs_eq h]
  unfold insert1 Rec.insert1
  rw [if_neg hub]
  cases hf : findNode s k with
  | none =>
    simp only [getE_map_none h hmem hf]
    by_cases ha : a.ins = true
    · simp only [ha, if_true]
      obtain ⟨u', f', hg, hfl, he⟩ := doInsert_spec h (findNode_none hf) v
      exact ⟨by triv, abs_of hg hfl he, hfl, u', f', hg⟩
    · simp only [ha, Bool.false_eq_true, if_false]
      exact ⟨by triv, abs_eq h, by triv, u, f, h⟩
  | some n =>
    obtain ⟨hn, hkn⟩ := findNode_some hf
    subst hkn
    have hu := h.slot_mem n hn
    simp only [getE_map_some h hmem hf (mem_ord.mpr hu)]
    by_cases ha : a.upd = true
    · have hlt : ¬ n.slot ≥ s.slots.length := Nat.not_le.mpr (h.lt_u hu)
      simp only [ha, if_true, hlt, if_false]
      have hs' := h.setVal n.slot v
      have hacc := hs'.access hu
      have hfl := fl_doAccess hs' hu
      refine ⟨by triv, abs_of hacc hfl ?_, hfl, _, _, hacc⟩
      show (ord s.fl (acc s.fl u n.slot)).map _ = Rec.touch _ _
      rw [ord_acc, List.map_append, Rec.touch]
      have hkey : ({ entryOf s n.slot with val := v } : Entry).key = n.key := by
        rw [entryOf_node h hn]
      rw [hkey, delE_map h hmem hn]
      congr 1
      · apply List.map_congr_left
        intro x hx
        obtain ⟨hx1, hx2⟩ := LList.mem_filter_ne.mp hx
        rw [entryOf_doAccess hs' hu, entryOf_set_ne s (fun e => hx2 e.symm)]
      · simp only [List.map_cons, List.map_nil]
        rw [entryOf_doAccess hs' hu, entryOf_set_self s (h.lt_u hu)]
        simp only [entryOf_node h hn]
    · simp only [ha, Bool.false_eq_true, if_false]
      exact ⟨by triv, abs_eq h, by triv, u, f, h⟩

theorem sim_find1 (h : Good cap s u f) (k : Key) (peek : Bool) :
    (find1 s k peek).2 = (Rec.find1 (abs s) k peek).2 ∧
    abs (find1 s k peek).1 = (Rec.find1 (abs s) k peek).1 ∧
    (find1 s k peek).1.fl = s.fl ∧ ∃ u' f', Good cap (find1 s k peek).1 u' f' := by
  have hmem : ∀ x ∈ ord s.fl u, x ∈ u := fun x hx => mem_ord.mp hx
  have hub : ¬ s.ub = true := by rw [h.ub]; simp
  rw [abs_eq h]
  unfold find1 Rec.find1
  rw [if_neg hub]
  cases hf : findNode s k with
  | none =>
    simp only [getE_map_none h hmem hf]
    exact ⟨by triv, abs_eq h, by triv, u, f, h⟩
  | some n =>
    obtain ⟨hn, hkn⟩ := findNode_some hf
    subst hkn
    have hu := h.slot_mem n hn
    have hlt : ¬ n.slot ≥ s.slots.length := Nat.not_le.mpr (h.lt_u hu)
    simp only [getE_map_some h hmem hf (mem_ord.mpr hu), hlt, if_false]
    cases peek with
    | true =>
      simp only [if_true]
      exact ⟨by triv, abs_eq h, by triv, u, f, h⟩
    | false =>
      simp only [Bool.false_eq_true, if_false]
      have hacc := h.access hu
      have hfl := fl_doAccess h hu
      refine ⟨by triv, abs_of hacc hfl ?_, hfl, _, _, hacc⟩
      rw [ord_acc, List.map_append, Rec.touch]
      have hkey : (entryOf s n.slot).key = n.key := by rw [entryOf_node h hn]
      rw [hkey, delE_map h hmem hn]
      congr 1
      · apply List.map_congr_left
        intro x hx
        rw [entryOf_doAccess h hu]
      · simp only [List.map_cons, List.map_nil]
        rw [entryOf_doAccess h hu]

theorem sim_erase1 (h : Good cap s u f) (k : Key) :
    (erase1 s k).2 = (Rec.erase1 (abs s) k).2 ∧
    abs (erase1 s k).1 = (Rec.erase1 (abs s) k).1 ∧
    (erase1 s k).1.fl = s.fl ∧ ∃ u' f', Good cap (erase1 s k).1 u' f' := by
  have hmem : ∀ x ∈ ord s.fl u, x ∈ u := fun x hx => mem_ord.mp hx
  have hub : ¬ s.ub = true := by rw [h.ub]; simp
  rw [abs_eq h]
  unfold erase1 Rec.erase1
  rw [if_neg hub]
  cases hf : findNode s k with
  | none =>
    simp only [getE_map_none h hmem hf]
    exact ⟨by triv, abs_eq h, by triv, u, f, h⟩
  | some n =>
    obtain ⟨hn, hkn⟩ := findNode_some hf
    subst hkn
    have hu := h.slot_mem n hn
    simp only [getE_map_some h hmem hf (mem_ord.mpr hu)]
    rw [doErase_eq h hn]
    have hg := h.erase hn
    refine ⟨by triv, abs_of hg (rfl : (erased s u f n).fl = s.fl) ?_, by triv, _, _, hg⟩
    rw [ord_filter, delE_map h hmem hn]
    apply List.map_congr_left
    intro x hx
    obtain ⟨hx1, hx2⟩ := LList.mem_filter_ne.mp hx
    exact entryOf_erased h hn (hmem x hx1) hx2

end

/-! ## the simulation relation and the two theorems -/

def Rel (fl : Flavour) (cap : Nat) (s : LState) (t : RecState) : Prop :=
  s.fl = fl ∧ (∃ u f, Good cap s u f) ∧ abs s = t

theorem good_init (fl : Flavour) {cap : Nat} (hcap : 0 < cap) :
    Good cap (init fl cap) [] (List.range cap) where
  ub := rfl
  cpos := hcap
  slen := by simp [init]
  list := rfl
  nodup := by simpa using List.nodup_range
  len := by simp
  lt := by intro x hx; simpa using hx
  lend := rfl
  used := rfl
  ids := List.Pairwise.nil
  idlt := by intro n hn; cases hn
  kkeys := List.Pairwise.nil
  kslots := List.Pairwise.nil
  slot_mem := by intro n hn; cases hn
  mem_slot := by intro x hx; cases hx
  its := by intro n hn; cases hn

theorem rel_init (fl : Flavour) {cap : Nat} (hcap : 0 < cap) :
    Rel fl cap (init fl cap) (Rec.init cap) :=
  ⟨rfl, ⟨_, _, good_init fl hcap⟩, by rw [abs_eq (good_init fl hcap)]; cases fl <;> rfl⟩

theorem sim (fl : Flavour) (cap : Nat) : Sim core (Rec.core (vicOf fl)) (Rel fl cap) where
  pre s t now hr := hr
  insert1 s t now k v a ttl hr := by
    obtain ⟨hfl, ⟨u, f, h⟩, rfl⟩ := hr
    subst hfl
    obtain ⟨h1, h2, h3, h4⟩ := sim_insert1 h k v a
    exact ⟨h1, h3, h4, h2⟩
  find1 s t now k peek hr := by
    obtain ⟨hfl, ⟨u, f, h⟩, rfl⟩ := hr
    subst hfl
    obtain ⟨h1, h2, h3, h4⟩ := sim_find1 h k peek
    exact ⟨h1, h3, h4, h2⟩
  erase1 s t k hr := by
    obtain ⟨hfl, ⟨u, f, h⟩, rfl⟩ := hr
    subst hfl
    obtain ⟨h1, h2, h3, h4⟩ := sim_erase1 h k
    exact ⟨h1, h3, h4, h2⟩
  noClearC := rfl
  noClearD := rfl
  clean s t now hr := ⟨rfl, hr⟩
  age s t now hr := ⟨rfl, hr⟩
  updateTtl s t x hr := hr
  size s t hr := by
    obtain ⟨hfl, ⟨u, f, h⟩, rfl⟩ := hr
    show s.used = (abs s).ents.length
    rw [abs_eq h, h.used]
    simp [ord_length]
  capacity s t hr := by
    obtain ⟨hfl, ⟨u, f, h⟩, rfl⟩ := hr
    rfl

/-- **C08 (model part), lru_cache and mru_cache**: for every capacity ≥ 1 and every history the
slot/iterator-level model never dereferences `end()`, never decrements `begin()`, never indexes out of
range, never erases through a stale hash iterator. -/
theorem no_ub (fl : Flavour) (cap : Nat) (hcap : 0 < cap) (ops : List (Time × Op)) :
    (core.run (init fl cap) ops).1.ub = false := by
  obtain ⟨_, _, ⟨u, f, h⟩, _⟩ := (sim fl cap).run ops _ _ (rel_init fl hcap)
  exact h.ub

/-- same results as the L1 model on every history; the L2 state abstracts to the L1 state -/
theorem refines_l1 (fl : Flavour) (cap : Nat) (hcap : 0 < cap) (ops : List (Time × Op)) :
    (core.run (init fl cap) ops).2 = ((l1core fl).run (Rec.init cap) ops).2 ∧
    abs (core.run (init fl cap) ops).1 = ((l1core fl).run (Rec.init cap) ops).1 := by
  rw [l1core_eq]
  obtain ⟨h1, _, _, h2⟩ := (sim fl cap).run ops _ _ (rel_init fl hcap)
  exact ⟨h1, h2⟩

end Verif.L2.Slot
