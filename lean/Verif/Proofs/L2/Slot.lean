import Verif.Concrete.Slot
import Verif.Model.Lru
import Verif.Proofs.Refine.Rec
/-!
# L2 `lru_cache` / `mru_cache`: no undefined behaviour on any history, refinement of the L1 model
-/
namespace Verif.L2.Slot
open Verif

/-- the in-use prefix of the list: the nodes before `m_lru_end` -/
def usedPrefix (s : LState) : List Nat :=
  match s.lruEnd with
  | none => s.lruList
  | some e => s.lruList.takeWhile (fun x => !(x == e))

def entryOf (s : LState) (slot : Nat) : Entry :=
  { key := ((s.keyed.find? (fun n => n.slot == slot)).map (·.key)).getD 0, val := (s.slots.getD slot default).val }

/-- the L1 state: lru keeps most-recent-first (L1: least recent first, so reversed); mru keeps oldest first -/
def abs (s : LState) : RecState :=
  { cap := s.slots.length,
    ents := match s.fl with
      | .lru => (usedPrefix s).reverse.map (entryOf s)
      | .mru => (usedPrefix s).map (entryOf s) }

def l1core : Flavour → Core RecState
  | .lru => Lru.core
  | .mru => Mru.core

/-- **C08 (model part), lru_cache and mru_cache**: for every capacity ≥ 1 and every history the
slot/iterator-level model never dereferences `end()`, never decrements `begin()`, never indexes out of
range, never erases through a stale hash iterator. -/
theorem no_ub (fl : Flavour) (cap : Nat) (hcap : 0 < cap) (ops : List (Time × Op)) :
    (core.run (init fl cap) ops).1.ub = false := by
  sorry

/-- same results as the L1 model on every history; the L2 state abstracts to the L1 state -/
theorem refines_l1 (fl : Flavour) (cap : Nat) (hcap : 0 < cap) (ops : List (Time × Op)) :
    (core.run (init fl cap) ops).2 = ((l1core fl).run (Rec.init cap) ops).2 ∧
    abs (core.run (init fl cap) ops).1 = ((l1core fl).run (Rec.init cap) ops).1 := by
  sorry

end Verif.L2.Slot
