import Verif.Concrete.Ttl
import Verif.Model.Ttl
import Verif.Proofs.L2.SlotLemmas
/-!
# Helpers for the L2 `tlru_cache` / `utlru_cache` proofs

* `SimC`: the one-step simulation of `SlotLemmas.lean` for cores that may have `clear()`;
* facts about `fileT` (the ttl structure's filing) and its image under an abstraction map.
-/
namespace Verif

/-- one-step simulation between two cores, through a relation `R`; `clear` included -/
structure SimC {σ τ : Type} (c : Core σ) (d : Core τ) (R : σ → τ → Prop) : Prop where
  pre : ∀ s t now, R s t → R (c.pre s now) (d.pre t now)
  insert1 : ∀ s t now k v a ttl, R s t →
    (c.insert1 s now k v a ttl).2 = (d.insert1 t now k v a ttl).2 ∧
    R (c.insert1 s now k v a ttl).1 (d.insert1 t now k v a ttl).1
  find1 : ∀ s t now k peek, R s t →
    (c.find1 s now k peek).2 = (d.find1 t now k peek).2 ∧
    R (c.find1 s now k peek).1 (d.find1 t now k peek).1
  erase1 : ∀ s t k, R s t →
    (c.erase1 s k).2 = (d.erase1 t k).2 ∧ R (c.erase1 s k).1 (d.erase1 t k).1
  hasClear : c.hasClear = d.hasClear
  clear : c.hasClear = true → ∀ s t, R s t → R (c.clear s) (d.clear t)
  clean : ∀ s t now, R s t → (c.clean s now).2 = (d.clean t now).2 ∧ R (c.clean s now).1 (d.clean t now).1
  age : ∀ s t now, R s t → (c.age s now).2 = (d.age t now).2 ∧ R (c.age s now).1 (d.age t now).1
  updateTtl : ∀ s t x, R s t → R (c.updateTtl s x) (d.updateTtl t x)
  size : ∀ s t, R s t → c.size s = d.size t
  capacity : ∀ s t, R s t → c.capacity s = d.capacity t

namespace SimC
variable {σ τ : Type} {c : Core σ} {d : Core τ} {R : σ → τ → Prop}

theorem insertMany (h : SimC c d R) (now : Time) (a : Allow) (xs : List (Key × Val × Nat)) :
    ∀ s t, R s t → (c.insertMany s now a xs).2 = (d.insertMany t now a xs).2 ∧
      R (c.insertMany s now a xs).1 (d.insertMany t now a xs).1 := by
  induction xs with
  | nil => intro s t hr; exact ⟨rfl, hr⟩
  | cons x xs ih =>
    intro s t hr
    obtain ⟨k, v, ttl⟩ := x
    have h1 := h.insert1 s t now k v a ttl hr
    have h2 := ih _ _ h1.2
    simp only [Core.insertMany]
    exact ⟨by rw [h1.1, h2.1], h2.2⟩

theorem findMany (h : SimC c d R) (now : Time) (peek : Bool) (ks : List Key) :
    ∀ s t, R s t → (c.findMany s now peek ks).2 = (d.findMany t now peek ks).2 ∧
      R (c.findMany s now peek ks).1 (d.findMany t now peek ks).1 := by
  induction ks with
  | nil => intro s t hr; exact ⟨rfl, hr⟩
  | cons k ks ih =>
    intro s t hr
    have h1 := h.find1 s t now k peek hr
    have h2 := ih _ _ h1.2
    simp only [Core.findMany]
    exact ⟨by rw [h1.1, h2.1], h2.2⟩

theorem eraseMany (h : SimC c d R) (ks : List Key) :
    ∀ s t, R s t → (c.eraseMany s ks).2 = (d.eraseMany t ks).2 ∧
      R (c.eraseMany s ks).1 (d.eraseMany t ks).1 := by
  induction ks with
  | nil => intro s t hr; exact ⟨rfl, hr⟩
  | cons k ks ih =>
    intro s t hr
    have h1 := h.erase1 s t k hr
    have h2 := ih _ _ h1.2
    simp only [Core.eraseMany]
    exact ⟨by rw [h1.1, h2.1], h2.2⟩

theorem step (h : SimC c d R) (s : σ) (t : τ) (now : Time) (op : Op) (hr : R s t) :
    (c.step s now op).2 = (d.step t now op).2 ∧ R (c.step s now op).1 (d.step t now op).1 := by
  have hp := h.pre s t now hr
  cases op with
  | insert k v a ttl =>
    have := h.insert1 _ _ now k v a ttl hp
    exact ⟨by simp only [Core.step]; rw [this.1], this.2⟩
  | insertRange xs a =>
    have := h.insertMany now a xs _ _ hp
    exact ⟨by simp only [Core.step]; rw [this.1], this.2⟩
  | find k peek =>
    have := h.find1 _ _ now k peek hp
    exact ⟨by simp only [Core.step]; rw [this.1], this.2⟩
  | findRange ks peek =>
    have := h.findMany now peek ks _ _ hp
    exact ⟨by simp only [Core.step]; rw [this.1], this.2⟩
  | findCount k peek =>
    have := h.find1 _ _ now k peek hp
    exact ⟨by simp only [Core.step]; rw [this.1], this.2⟩
  | erase k =>
    have := h.erase1 _ _ k hp
    exact ⟨by simp only [Core.step]; rw [this.1], this.2⟩
  | eraseRange ks =>
    have := h.eraseMany ks _ _ hp
    exact ⟨by simp only [Core.step]; rw [this.1], this.2⟩
  | clear =>
    have hc := h.hasClear
    simp only [Core.step, hc]
    cases hd : d.hasClear
    · exact ⟨trivial, hr⟩
    · exact ⟨trivial, h.clear (hc.trans hd) s t hr⟩
  | clean =>
    have := h.clean s t now hr
    exact ⟨by simp only [Core.step]; rw [this.1], this.2⟩
  | age =>
    have := h.age s t now hr
    exact ⟨by simp only [Core.step]; rw [this.1], this.2⟩
  | updateTtl x => exact ⟨by simp only [Core.step], h.updateTtl s t x hr⟩
  | size => exact ⟨by simp only [Core.step]; rw [h.size s t hr], hr⟩
  | empty => exact ⟨by simp only [Core.step]; rw [h.size s t hr], hr⟩
  | capacity => exact ⟨by simp only [Core.step]; rw [h.capacity s t hr], hr⟩

theorem run (h : SimC c d R) (ops : List (Time × Op)) :
    ∀ s t, R s t → (c.run s ops).2 = (d.run t ops).2 ∧ R (c.run s ops).1 (d.run t ops).1 := by
  induction ops with
  | nil => intro s t hr; exact ⟨rfl, hr⟩
  | cons x ops ih =>
    intro s t hr
    obtain ⟨now, op⟩ := x
    have h1 := h.step s t now op hr
    have h2 := ih _ _ h1.2
    simp only [Core.run]
    exact ⟨by rw [h1.1, h2.1], h2.2⟩

end SimC
end Verif

namespace Verif.L2.Ttl
open Verif

/-- `fileT` reads the state only through the deadlines of the nodes already filed -/
theorem fileT_congr {s s' : TState} {q : List TNode} (n : TNode) (d : Time)
    (h : ∀ x ∈ q, dlOfNode s x = dlOfNode s' x) : fileT s q n d = fileT s' q n d := by
  induction q with
  | nil => rfl
  | cons x xs ih =>
    simp only [fileT]
    rw [h x (by simp), ih (fun y hy => h y (List.mem_cons_of_mem _ hy))]

theorem fileT_perm (s : TState) (q : List TNode) (n : TNode) (d : Time) :
    (fileT s q n d).Perm (n :: q) := by
  induction q with
  | nil => exact List.Perm.refl _
  | cons x xs ih =>
    simp only [fileT]
    by_cases h : dlOfNode s x ≤ d
    · rw [if_pos h]
      exact (ih.cons x).trans (List.Perm.swap _ _ _)
    · rw [if_neg h]

theorem mem_fileT {s : TState} {q : List TNode} {n : TNode} {d : Time} {x : TNode} :
    x ∈ fileT s q n d ↔ x = n ∨ x ∈ q := by
  rw [(fileT_perm s q n d).mem_iff]; simp

/-- the image of `fileT` under a map that reads deadlines the same way is the abstract `fileDl` -/
theorem map_fileT (s : TState) (P : TNode → Time × Key) (q : List TNode) (n : TNode) (d : Time) (k : Key)
    (hP : ∀ x ∈ q, (P x).1 = dlOfNode s x) (hn : P n = (d, k)) :
    (fileT s q n d).map P = Tlru.fileDl (q.map P) d k := by
  induction q with
  | nil => simp [fileT, Tlru.fileDl, hn]
  | cons x xs ih =>
    simp only [fileT, List.map_cons, Tlru.fileDl]
    rw [hP x (by simp)]
    by_cases h : dlOfNode s x ≤ d
    · rw [if_pos h, if_pos h, List.map_cons, ih (fun y hy => hP y (List.mem_cons_of_mem _ hy))]
    · rw [if_neg h, if_neg h, List.map_cons, List.map_cons, hn]

theorem pairwise_of_perm {α : Type} {R : α → α → Prop} (hs : ∀ a b, R a b → R b a) {l₁ l₂ : List α}
    (hp : l₁.Perm l₂) (h : l₂.Pairwise R) : l₁.Pairwise R :=
  (hp.pairwise_iff (fun {_ _} hab => hs _ _ hab)).mpr h

end Verif.L2.Ttl
