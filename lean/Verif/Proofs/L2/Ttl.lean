import Verif.Concrete.Ttl
import Verif.Model.Ttl
import Verif.Proofs.L2.SlotLemmas
import Verif.Proofs.L2.Slot
import Verif.Proofs.L2.TtlLemmas
import Verif.Proofs.Refine.Tlru
/-!
# L2 `tlru_cache` / `utlru_cache`: no undefined behaviour on any history, refinement of the L1 models
-/
namespace Verif.L2.Ttl
open Verif

/-- the in-use prefix of the recency list: the nodes before `m_lru_end` -/
def usedPrefix (s : TState) : List Nat :=
  match s.lruEnd with
  | none => s.lruList
  | some e => s.lruList.takeWhile (fun x => !(x == e))

def keyOf (s : TState) (slot : Nat) : Key :=
  ((s.keyed.find? (fun n => n.slot == slot)).map (·.key)).getD 0

def entryOf (s : TState) (slot : Nat) : Entry :=
  { key := keyOf s slot, val := (s.slots.getD slot default).val, dl := (s.slots.getD slot default).expire }

/-- the L1 state: recency list reversed (L1 keeps least recently used first); ttl structure as
(deadline, key) pairs in the same order -/
def abs (s : TState) : TlruState :=
  { cap := s.slots.length, ttl := s.ttl,
    ents := (usedPrefix s).reverse.map (entryOf s),
    tq := s.ttlq.map (fun n => (dlOfNode s n, keyOf s n.slot)) }

def l1core : TKind → Core TlruState
  | .tlru => Tlru.core
  | .utlru => Utlru.core

def l1init (kind : TKind) (cap ttlMs : Nat) : TlruState :=
  match kind with
  | .tlru => Tlru.init cap
  | .utlru => Utlru.init cap ttlMs

/-- the constructor argument that matters: tlru has no configured TTL -/
def ttlArg (kind : TKind) (ttlMs : Nat) : Nat :=
  match kind with
  | .tlru => 0
  | .utlru => ttlMs

/-! ## the invariant -/

open Verif.L2.Slot (pairwise_inj find?_eq_self find?_congr')

/-- `Good kind cap s u f`: no UB so far; `m_lru_list` is `u ++ f`, a duplicate-free arrangement of
`0 … cap-1`; `u` is the in-use prefix, `m_lru_end` points at the head of `f`; the hash nodes have distinct
ids, keys and slots; their slots are exactly `u`; each in-use slot points back at its own list node, its
own hash node and its own ttl node; the ttl nodes have distinct ids and slots, their slots are exactly
`u`; a tlru node's multimap key is its slot's expiry. -/
structure Good (kind : TKind) (cap : Nat) (s : TState) (u f : List Nat) : Prop where
  kind : s.kind = kind
  ub : s.ub = false
  cpos : 0 < cap
  slen : s.slots.length = cap
  list : s.lruList = u ++ f
  nodup : (u ++ f).Nodup
  len : u.length + f.length = cap
  lt : ∀ x ∈ u ++ f, x < cap
  lend : s.lruEnd = f.head?
  used : s.used = u.length
  ids : s.keyed.Pairwise (fun a b => a.id ≠ b.id)
  idlt : ∀ n ∈ s.keyed, n.id < s.nextNode
  kkeys : s.keyed.Pairwise (fun a b => a.key ≠ b.key)
  kslots : s.keyed.Pairwise (fun a b => a.slot ≠ b.slot)
  slot_mem : ∀ n ∈ s.keyed, n.slot ∈ u
  mem_slot : ∀ x ∈ u, ∃ n ∈ s.keyed, n.slot = x
  its : ∀ n ∈ s.keyed, (s.slots.getD n.slot default).lruIt = n.slot ∧
    (s.slots.getD n.slot default).keyedIt = n.id
  tids : s.ttlq.Pairwise (fun a b => a.id ≠ b.id)
  tidlt : ∀ t ∈ s.ttlq, t.id < s.nextT
  tslots : s.ttlq.Pairwise (fun a b => a.slot ≠ b.slot)
  tslot_mem : ∀ t ∈ s.ttlq, t.slot ∈ u
  mem_tslot : ∀ x ∈ u, ∃ t ∈ s.ttlq, t.slot = x
  tit : ∀ t ∈ s.ttlq, (s.slots.getD t.slot default).ttlIt = t.id
  tdl : s.kind = .tlru → ∀ t ∈ s.ttlq, t.dl = (s.slots.getD t.slot default).expire

/-- the (deadline, key) pair the ttl structure shows for a slot -/
def pairOf (s : TState) (x : Nat) : Time × Key := ((entryOf s x).dl, (entryOf s x).key)

section
variable {kind : TKind} {cap : Nat} {s : TState} {u f : List Nat}

theorem Good.nodup_u (h : Good kind cap s u f) : u.Nodup := (List.nodup_append.mp h.nodup).1

theorem Good.lt_u (h : Good kind cap s u f) {x : Nat} (hx : x ∈ u) : x < s.slots.length := by
  rw [h.slen]; exact h.lt x (List.mem_append_left _ hx)

theorem usedPrefix_eq (h : Good kind cap s u f) : usedPrefix s = u := by
  unfold usedPrefix
  rw [h.lend, h.list]
  cases hf : f.head? with
  | none =>
    cases f with
    | nil => simp
    | cons a b => simp at hf
  | some p => exact LList.takeWhile_partition h.nodup hf

theorem Good.dlOfNode (h : Good kind cap s u f) {t : TNode} (ht : t ∈ s.ttlq) :
    dlOfNode s t = (s.slots.getD t.slot default).expire := by
  unfold Ttl.dlOfNode
  cases hk : s.kind with
  | tlru => exact h.tdl hk t ht
  | utlru => rfl

theorem abs_eq (h : Good kind cap s u f) :
    abs s = { cap := cap, ttl := s.ttl, ents := u.reverse.map (entryOf s),
              tq := (s.ttlq.map (·.slot)).map (pairOf s) } := by
  unfold abs
  rw [usedPrefix_eq h, h.slen, List.map_map]
  congr 1
  apply List.map_congr_left
  intro t ht
  simp only [Function.comp, pairOf, entryOf, h.dlOfNode ht]

theorem find_slot (h : Good kind cap s u f) {n : HNode} (hn : n ∈ s.keyed) :
    s.keyed.find? (fun m => m.slot == n.slot) = some n := by
  cases hf : s.keyed.find? (fun m => m.slot == n.slot) with
  | none =>
    have := List.find?_eq_none.mp hf n hn
    simp at this
  | some m =>
    have hm := List.mem_of_find?_eq_some hf
    have hs := List.find?_some hf
    simp only [beq_iff_eq] at hs
    rw [pairwise_inj h.kslots hm hn hs]

theorem keyOf_node (h : Good kind cap s u f) {n : HNode} (hn : n ∈ s.keyed) : keyOf s n.slot = n.key := by
  simp [keyOf, find_slot h hn]

theorem entryOf_node (h : Good kind cap s u f) {n : HNode} (hn : n ∈ s.keyed) :
    entryOf s n.slot = { key := n.key, val := (s.slots.getD n.slot default).val,
                         dl := (s.slots.getD n.slot default).expire } := by
  simp only [entryOf, keyOf_node h hn]

theorem key_iff (h : Good kind cap s u f) {n : HNode} (hn : n ∈ s.keyed) {x : Nat} (hx : x ∈ u) :
    (entryOf s x).key = n.key ↔ x = n.slot := by
  obtain ⟨m, hm, rfl⟩ := h.mem_slot x hx
  rw [entryOf_node h hm]
  constructor
  · intro e
    rw [pairwise_inj h.kkeys hm hn e]
  · intro e
    rw [pairwise_inj h.kslots hm hn e]

theorem findNode_some {k : Key} {n : HNode} (hf : findNode s k = some n) : n ∈ s.keyed ∧ n.key = k := by
  unfold findNode at hf
  exact ⟨List.mem_of_find?_eq_some hf, by simpa using List.find?_some hf⟩

theorem findNode_none {k : Key} (hf : findNode s k = none) : ∀ n ∈ s.keyed, n.key ≠ k := by
  unfold findNode at hf
  intro n hn
  simpa using List.find?_eq_none.mp hf n hn

theorem key_beq (h : Good kind cap s u f) {n : HNode} (hn : n ∈ s.keyed) {x : Nat} (hx : x ∈ u) :
    decide ((entryOf s x).key = n.key) = (x == n.slot) := by
  have := key_iff h hn hx
  by_cases e : x = n.slot
  · rw [decide_eq_true (this.mpr e)]; simp [e]
  · have e' : ¬ (entryOf s x).key = n.key := fun hh => e (this.mp hh)
    rw [decide_eq_false e']; simp [e]

theorem getE_map_some (h : Good kind cap s u f) {l : List Nat} (hl : ∀ x ∈ l, x ∈ u) {k : Key} {n : HNode}
    (hf : findNode s k = some n) (hnl : n.slot ∈ l) :
    getE (l.map (entryOf s)) k = some (entryOf s n.slot) := by
  obtain ⟨hn, hk⟩ := findNode_some hf
  subst hk
  unfold getE
  rw [List.find?_map]
  have : l.find? ((fun e : Entry => decide (e.key = n.key)) ∘ entryOf s) = l.find? (fun x => x == n.slot) :=
    find?_congr' (fun x hx => key_beq h hn (hl x hx))
  rw [this, find?_eq_self hnl]
  rfl

theorem getE_map_none (h : Good kind cap s u f) {l : List Nat} (hl : ∀ x ∈ l, x ∈ u) {k : Key}
    (hf : findNode s k = none) : getE (l.map (entryOf s)) k = none := by
  rw [getE_eq_none_iff]
  intro hm
  simp only [keys, List.map_map, List.mem_map, Function.comp] at hm
  obtain ⟨x, hx, hk⟩ := hm
  obtain ⟨m, hm, rfl⟩ := h.mem_slot x (hl x hx)
  rw [entryOf_node h hm] at hk
  exact findNode_none hf m hm hk

theorem delE_map (h : Good kind cap s u f) {l : List Nat} (hl : ∀ x ∈ l, x ∈ u) {n : HNode} (hn : n ∈ s.keyed) :
    delE (l.map (entryOf s)) n.key = (l.filter (fun x => !(x == n.slot))).map (entryOf s) := by
  unfold delE
  rw [List.filter_map]
  congr 1
  apply List.filter_congr
  intro x hx
  simp only [Function.comp, key_beq h hn (hl x hx)]

theorem unfile_map (h : Good kind cap s u f) {l : List Nat} (hl : ∀ x ∈ l, x ∈ u) {n : HNode} (hn : n ∈ s.keyed) :
    Tlru.unfile (l.map (pairOf s)) n.key = (l.filter (fun x => !(x == n.slot))).map (pairOf s) := by
  unfold Tlru.unfile
  rw [List.filter_map]
  congr 1
  apply List.filter_congr
  intro x hx
  show (!decide ((entryOf s x).key = n.key)) = _
  rw [key_beq h hn (hl x hx)]

/-- the ttl node of an in-use slot, found through the slot's `ttlIt` -/
theorem find_tid (h : Good kind cap s u f) {t : TNode} (ht : t ∈ s.ttlq) :
    s.ttlq.find? (fun m => m.id == t.id) = some t := by
  cases hf : s.ttlq.find? (fun m => m.id == t.id) with
  | none =>
    have := List.find?_eq_none.mp hf t ht
    simp at this
  | some m =>
    have hm := List.mem_of_find?_eq_some hf
    have hs := List.find?_some hf
    simp only [beq_iff_eq] at hs
    rw [pairwise_inj h.tids hm ht hs]

theorem not_mem_id_iff (h : Good kind cap s u f) {n m : HNode} (hn : n ∈ s.keyed) (hm : m ∈ s.keyed) :
    (!(m.id == n.id)) = true ↔ m.slot ≠ n.slot := by
  simp only [Bool.not_eq_true', beq_eq_false_iff_ne, ne_eq]
  constructor
  · intro hid hs; exact hid (by rw [pairwise_inj h.kslots hm hn hs])
  · intro hs hid; exact hs (by rw [pairwise_inj h.ids hm hn hid])

theorem not_mem_tid_iff (h : Good kind cap s u f) {t m : TNode} (ht : t ∈ s.ttlq) (hm : m ∈ s.ttlq) :
    (!(m.id == t.id)) = true ↔ m.slot ≠ t.slot := by
  simp only [Bool.not_eq_true', beq_eq_false_iff_ne, ne_eq]
  constructor
  · intro hid hs; exact hid (by rw [pairwise_inj h.tslots hm ht hs])
  · intro hs hid; exact hs (by rw [pairwise_inj h.tids hm ht hid])

/-- removing a ttl node by identity removes its slot from the slot view of the structure -/
theorem map_filter_tid (h : Good kind cap s u f) {t : TNode} (ht : t ∈ s.ttlq) :
    (s.ttlq.filter (fun m => !(m.id == t.id))).map (·.slot) =
      (s.ttlq.map (·.slot)).filter (fun x => !(x == t.slot)) := by
  rw [List.filter_map]
  congr 1
  apply List.filter_congr
  intro m hm
  have := not_mem_tid_iff h ht hm
  simp only [Function.comp]
  by_cases e : m.slot = t.slot
  · have : ¬ (!(m.id == t.id)) = true := fun hh => (this.mp hh) e
    simp only [Bool.not_eq_true] at this
    rw [this]; simp [e]
  · rw [this.mpr e]; simp [e]

theorem Good.ttlq_len (h : Good kind cap s u f) : s.ttlq.length = u.length := by
  have hn : (s.ttlq.map (·.slot)).Nodup := by
    rw [List.nodup_iff_pairwise_ne, List.pairwise_map]; exact h.tslots
  have hp : (s.ttlq.map (·.slot)).Perm u := by
    rw [List.perm_ext_iff_of_nodup hn h.nodup_u]
    intro x
    constructor
    · intro hx
      obtain ⟨t, ht, rfl⟩ := List.mem_map.mp hx
      exact h.tslot_mem t ht
    · intro hx
      obtain ⟨t, ht, rfl⟩ := h.mem_tslot x hx
      exact List.mem_map_of_mem ht
  simpa using hp.length_eq

end

/-! ## the primitives as explicit state updates -/

theorem getD_set_self {l : List TSlot} {i : Nat} (hi : i < l.length) (x d : TSlot) :
    (l.set i x).getD i d = x := by
  simp [List.getD_eq_getElem?_getD, hi]

theorem getD_set_ne {l : List TSlot} {i j : Nat} (hne : i ≠ j) (x d : TSlot) :
    (l.set i x).getD j d = l.getD j d := by
  simp [List.getD_eq_getElem?_getD, hne]

/-- where `do_access` puts slot `i` within the in-use prefix -/
def acc (u : List Nat) (i : Nat) : List Nat := i :: u.filter (fun x => !(x == i))

theorem acc_perm {u : List Nat} {i : Nat} (hn : u.Nodup) (hi : i ∈ u) : (acc u i).Perm u :=
  LList.cons_filter_perm hn hi

section
variable {kind : TKind} {cap : Nat} {s : TState} {u f : List Nat}

theorem Good.lruIt (h : Good kind cap s u f) {i : Nat} (hi : i ∈ u) : (s.slots.getD i default).lruIt = i := by
  obtain ⟨n, hn, rfl⟩ := h.mem_slot i hi
  exact (h.its n hn).1

/-- permuting the in-use prefix keeps the invariant -/
theorem Good.perm (h : Good kind cap s u f) {u' : List Nat} (hp : u'.Perm u) :
    Good kind cap { s with lruList := u' ++ f } u' f where
  kind := h.kind
  ub := h.ub
  cpos := h.cpos
  slen := h.slen
  list := rfl
  nodup := ((hp.append_right f).nodup_iff).mpr h.nodup
  len := by rw [hp.length_eq]; exact h.len
  lt := fun x hx => h.lt x (((hp.append_right f).mem_iff).mp hx)
  lend := h.lend
  used := h.used.trans hp.length_eq.symm
  ids := h.ids
  idlt := h.idlt
  kkeys := h.kkeys
  kslots := h.kslots
  slot_mem := fun n hn => hp.mem_iff.mpr (h.slot_mem n hn)
  mem_slot := fun x hx => h.mem_slot x (hp.mem_iff.mp hx)
  its := h.its
  tids := h.tids
  tidlt := h.tidlt
  tslots := h.tslots
  tslot_mem := fun t ht => hp.mem_iff.mpr (h.tslot_mem t ht)
  mem_tslot := fun x hx => h.mem_tslot x (hp.mem_iff.mp hx)
  tit := h.tit
  tdl := h.tdl

theorem doAccess_eq (h : Good kind cap s u f) {i : Nat} (hi : i ∈ u) :
    doAccess s i = { s with lruList := acc u i ++ f } := by
  have hit := h.lruIt hi
  have hc : s.lruList.contains i = true := by
    rw [List.contains_iff_mem, h.list]; exact List.mem_append_left _ hi
  unfold doAccess
  simp only [hit, hc, Bool.not_true, Bool.false_eq_true, if_false]
  rw [h.list, LList.splice_front h.nodup hi]
  rfl

theorem Good.access (h : Good kind cap s u f) {i : Nat} (hi : i ∈ u) :
    Good kind cap (doAccess s i) (acc u i) f := by
  rw [doAccess_eq h hi]
  exact h.perm (acc_perm h.nodup_u hi)

/-- the state after `do_erase` of an in-use slot -/
def erased (s : TState) (u f : List Nat) (n : HNode) (t : TNode) : TState :=
  { s with lruList := u.filter (fun x => !(x == n.slot)) ++ n.slot :: f,
           lruEnd := some n.slot,
           ttlq := s.ttlq.filter (fun m => !(m.id == t.id)),
           keyed := s.keyed.filter (fun m => !(m.id == n.id)),
           used := s.used - 1 }

theorem doErase_eq (h : Good kind cap s u f) {n : HNode} (hn : n ∈ s.keyed) {t : TNode} (ht : t ∈ s.ttlq)
    (hts : t.slot = n.slot) : doErase s n.slot = erased s u f n t := by
  have hu := h.slot_mem n hn
  have hlt : ¬ n.slot ≥ s.slots.length := Nat.not_le.mpr (h.lt_u hu)
  have hit := h.its n hn
  have htit : (s.slots.getD n.slot default).ttlIt = t.id := by rw [← hts]; exact h.tit t ht
  have hc : s.lruList.contains n.slot = true := by
    rw [List.contains_iff_mem, h.list]; exact List.mem_append_left _ hu
  obtain ⟨last, hlast⟩ : ∃ last, u.getLast? = some last := by
    cases hg : u.getLast? with
    | none => rw [List.getLast?_eq_none_iff] at hg; subst hg; cases hu
    | some x => exact ⟨x, rfl⟩
  have hprev : LList.prev s.lruList s.lruEnd = some last := by
    rw [h.list, h.lend, LList.prev_partition h.nodup, hlast]
  have hl : (if n.slot ≠ last then LList.splice s.lruList s.lruEnd n.slot else s.lruList)
      = u.filter (fun x => !(x == n.slot)) ++ n.slot :: f := by
    rw [h.list, h.lend]
    by_cases e : n.slot = last
    · subst e
      simp only [ne_eq, not_true_eq_false, if_false]
      conv => lhs; rw [LList.eq_filter_snoc_of_getLast? h.nodup_u hlast]
      simp
    · simp only [ne_eq, e, not_false_eq_true, if_true]
      exact LList.splice_partition h.nodup hu
  have hnd : ((u.filter (fun x => !(x == n.slot)) ++ [n.slot]) ++ f).Nodup :=
    ((LList.filter_snoc_perm h.nodup_u hu).append_right f).nodup_iff.mpr h.nodup
  have hprev2 : LList.prev (u.filter (fun x => !(x == n.slot)) ++ n.slot :: f) s.lruEnd = some n.slot := by
    have := LList.prev_partition hnd
    rw [h.lend]
    simpa using this
  have hany : s.keyed.any (fun m => m.id == n.id) = true := by
    rw [List.any_eq_true]; exact ⟨n, hn, by simp⟩
  have hanyT : s.ttlq.any (fun m => m.id == t.id) = true := by
    rw [List.any_eq_true]; exact ⟨t, ht, by simp⟩
  unfold doErase
  simp only [hlt, if_false, hprev, hit.1, hc, Bool.not_true, Bool.false_eq_true, hl, hprev2, hany, hanyT,
    hit.2, htit]
  rfl

theorem Good.erase (h : Good kind cap s u f) {n : HNode} (hn : n ∈ s.keyed) {t : TNode} (ht : t ∈ s.ttlq)
    (hts : t.slot = n.slot) :
    Good kind cap (erased s u f n t) (u.filter (fun x => !(x == n.slot))) (n.slot :: f) := by
  have hu := h.slot_mem n hn
  have hp : (u.filter (fun x => !(x == n.slot)) ++ n.slot :: f).Perm (u ++ f) :=
    List.perm_middle.trans ((LList.cons_filter_perm h.nodup_u hu).append_right f)
  have hlen := LList.length_filter_ne h.nodup_u hu
  exact {
    kind := h.kind
    ub := h.ub
    cpos := h.cpos
    slen := h.slen
    list := rfl
    nodup := hp.nodup_iff.mpr h.nodup
    len := by have := h.len; simp only [List.length_cons]; omega
    lt := fun x hx => h.lt x (hp.mem_iff.mp hx)
    lend := rfl
    used := by show s.used - 1 = _; rw [h.used]; omega
    ids := h.ids.filter _
    idlt := fun m hm => h.idlt m (List.mem_filter.mp hm).1
    kkeys := h.kkeys.filter _
    kslots := h.kslots.filter _
    slot_mem := by
      intro m hm
      obtain ⟨hm1, hm2⟩ := List.mem_filter.mp hm
      exact LList.mem_filter_ne.mpr ⟨h.slot_mem m hm1, (not_mem_id_iff h hn hm1).mp hm2⟩
    mem_slot := by
      intro x hx
      obtain ⟨hx1, hx2⟩ := LList.mem_filter_ne.mp hx
      obtain ⟨m, hm, rfl⟩ := h.mem_slot x hx1
      exact ⟨m, List.mem_filter.mpr ⟨hm, (not_mem_id_iff h hn hm).mpr hx2⟩, rfl⟩
    its := fun m hm => h.its m (List.mem_filter.mp hm).1
    tids := h.tids.filter _
    tidlt := fun m hm => h.tidlt m (List.mem_filter.mp hm).1
    tslots := h.tslots.filter _
    tslot_mem := by
      intro m hm
      obtain ⟨hm1, hm2⟩ := List.mem_filter.mp hm
      exact LList.mem_filter_ne.mpr ⟨h.tslot_mem m hm1, hts ▸ (not_mem_tid_iff h ht hm1).mp hm2⟩
    mem_tslot := by
      intro x hx
      obtain ⟨hx1, hx2⟩ := LList.mem_filter_ne.mp hx
      obtain ⟨m, hm, rfl⟩ := h.mem_tslot x hx1
      exact ⟨m, List.mem_filter.mpr ⟨hm, (not_mem_tid_iff h ht hm).mpr (hts ▸ hx2)⟩, rfl⟩
    tit := fun m hm => h.tit m (List.mem_filter.mp hm).1
    tdl := fun hk m hm => h.tdl hk m (List.mem_filter.mp hm).1 }

/-- the ttl node `do_insert` creates -/
def newT (s : TState) (d : Time) (idx : Nat) : TNode :=
  ⟨s.nextT, (match s.kind with | .tlru => d | .utlru => 0), idx⟩

/-- the state after claiming the first free slot `idx` for key `k` (before `do_access`) -/
def pushNode (s : TState) (k : Key) (v : Val) (d : Time) (idx : Nat) : TState :=
  { s with slots := s.slots.set idx ⟨v, d, idx, s.nextT, s.nextNode⟩,
           keyed := s.keyed ++ [⟨s.nextNode, k, idx⟩], nextNode := s.nextNode + 1,
           ttlq := fileT { s with slots := s.slots.set idx ⟨v, d, idx, s.nextT, s.nextNode⟩ } s.ttlq
                     (newT s d idx) d,
           nextT := s.nextT + 1,
           lruEnd := LList.next s.lruList idx, used := s.used + 1 }

theorem Good.push {idx : Nat} {r : List Nat} (h : Good kind cap s u (idx :: r)) {k : Key}
    (hk : ∀ n ∈ s.keyed, n.key ≠ k) (v : Val) (d : Time) :
    Good kind cap (pushNode s k v d idx) (u ++ [idx]) r := by
  have hidx : idx ∉ u := LList.head_not_mem h.nodup rfl
  have hlt : idx < s.slots.length := by rw [h.slen]; exact h.lt idx (by simp)
  have hassoc : (u ++ [idx]) ++ r = u ++ idx :: r := by simp
  have hperm := fileT_perm { s with slots := s.slots.set idx ⟨v, d, idx, s.nextT, s.nextNode⟩ } s.ttlq
    (newT s d idx) d
  have hmem : ∀ x, x ∈ (pushNode s k v d idx).ttlq ↔ x = newT s d idx ∨ x ∈ s.ttlq := fun x => mem_fileT
  exact {
    kind := h.kind
    ub := h.ub
    cpos := h.cpos
    slen := by simp [pushNode, h.slen]
    list := by rw [hassoc]; exact h.list
    nodup := by rw [hassoc]; exact h.nodup
    len := by have := h.len; simp only [List.length_cons, List.length_append, List.length_nil] at *; omega
    lt := by rw [hassoc]; exact h.lt
    lend := by
      show LList.next s.lruList idx = r.head?
      rw [h.list]; exact LList.next_partition h.nodup rfl
    used := by show s.used + 1 = _; rw [h.used]; simp
    ids := by
      show (s.keyed ++ [_]).Pairwise _
      rw [List.pairwise_append]
      refine ⟨h.ids, List.pairwise_singleton _ _, ?_⟩
      intro a ha b hb
      simp only [List.mem_singleton] at hb; subst hb
      exact Nat.ne_of_lt (h.idlt a ha)
    idlt := by
      intro m hm
      show m.id < s.nextNode + 1
      rcases List.mem_append.mp hm with hm | hm
      · exact Nat.lt_succ_of_lt (h.idlt m hm)
      · simp only [List.mem_singleton] at hm; subst hm; exact Nat.lt_succ_self _
    kkeys := by
      show (s.keyed ++ [_]).Pairwise _
      rw [List.pairwise_append]
      refine ⟨h.kkeys, List.pairwise_singleton _ _, ?_⟩
      intro a ha b hb
      simp only [List.mem_singleton] at hb; subst hb
      exact hk a ha
    kslots := by
      show (s.keyed ++ [_]).Pairwise _
      rw [List.pairwise_append]
      refine ⟨h.kslots, List.pairwise_singleton _ _, ?_⟩
      intro a ha b hb
      simp only [List.mem_singleton] at hb; subst hb
      intro e
      have e' : a.slot = idx := e
      exact hidx (e' ▸ h.slot_mem a ha)
    slot_mem := by
      intro m hm
      rcases List.mem_append.mp hm with hm | hm
      · exact List.mem_append_left _ (h.slot_mem m hm)
      · simp only [List.mem_singleton] at hm; subst hm; simp
    mem_slot := by
      intro x hx
      rcases List.mem_append.mp hx with hx | hx
      · obtain ⟨m, hm, e⟩ := h.mem_slot x hx
        exact ⟨m, List.mem_append_left _ hm, e⟩
      · simp only [List.mem_singleton] at hx; subst hx
        exact ⟨_, List.mem_append_right _ (List.mem_singleton.mpr rfl), rfl⟩
    its := by
      intro m hm
      show ((s.slots.set idx _).getD m.slot default).lruIt = _ ∧ ((s.slots.set idx _).getD m.slot default).keyedIt = _
      rcases List.mem_append.mp hm with hm | hm
      · have hne : idx ≠ m.slot := fun e => hidx (e ▸ h.slot_mem m hm)
        rw [getD_set_ne hne]
        exact h.its m hm
      · simp only [List.mem_singleton] at hm; subst hm
        rw [getD_set_self hlt]
        exact ⟨rfl, rfl⟩
    tids := by
      refine pairwise_of_perm (fun a b hab => hab.symm) hperm ?_
      rw [List.pairwise_cons]
      exact ⟨fun a ha => (Nat.ne_of_lt (h.tidlt a ha)).symm, h.tids⟩
    tidlt := by
      intro m hm
      show m.id < s.nextT + 1
      rcases (hmem m).mp hm with hm | hm
      · subst hm; exact Nat.lt_succ_self _
      · exact Nat.lt_succ_of_lt (h.tidlt m hm)
    tslots := by
      refine pairwise_of_perm (fun a b hab => hab.symm) hperm ?_
      rw [List.pairwise_cons]
      refine ⟨fun a ha e => ?_, h.tslots⟩
      have e' : idx = a.slot := e
      exact hidx (e' ▸ h.tslot_mem a ha)
    tslot_mem := by
      intro m hm
      rcases (hmem m).mp hm with hm | hm
      · subst hm; show idx ∈ u ++ [idx]; simp
      · exact List.mem_append_left _ (h.tslot_mem m hm)
    mem_tslot := by
      intro x hx
      rcases List.mem_append.mp hx with hx | hx
      · obtain ⟨m, hm, e⟩ := h.mem_tslot x hx
        exact ⟨m, (hmem m).mpr (Or.inr hm), e⟩
      · simp only [List.mem_singleton] at hx; subst hx
        exact ⟨_, (hmem _).mpr (Or.inl rfl), rfl⟩
    tit := by
      intro m hm
      show ((s.slots.set idx _).getD m.slot default).ttlIt = _
      rcases (hmem m).mp hm with hm | hm
      · subst hm
        show ((s.slots.set idx _).getD idx default).ttlIt = _
        rw [getD_set_self hlt]
        rfl
      · have hne : idx ≠ m.slot := fun e => hidx (e ▸ h.tslot_mem m hm)
        rw [getD_set_ne hne]
        exact h.tit m hm
    tdl := by
      intro hkd m hm
      have hkd' : s.kind = .tlru := hkd
      show m.dl = ((s.slots.set idx _).getD m.slot default).expire
      rcases (hmem m).mp hm with hm | hm
      · subst hm
        show (newT s d idx).dl = ((s.slots.set idx _).getD idx default).expire
        rw [getD_set_self hlt]
        simp only [newT, hkd']
      · have hne : idx ≠ m.slot := fun e => hidx (e ▸ h.tslot_mem m hm)
        rw [getD_set_ne hne]
        exact h.tdl hkd' m hm }

/-- the state after `do_update` re-files slot `idx` (before `do_access`): the slot is overwritten by `e'`,
ttl node `old` is taken out and `m` filed at deadline `d` -/
def refiled (s : TState) (idx : Nat) (e' : TSlot) (old m : TNode) (d : Time) (nT : Nat) : TState :=
  { s with slots := s.slots.set idx e',
           ttlq := fileT { s with slots := s.slots.set idx e' }
                     (s.ttlq.filter (fun n => !(n.id == old.id))) m d,
           nextT := nT }

theorem Good.refile (h : Good kind cap s u f) {idx : Nat} {e' : TSlot} {old m : TNode} {d : Time} {nT : Nat}
    (hold : old ∈ s.ttlq) (hos : old.slot = idx)
    (he1 : e'.lruIt = (s.slots.getD idx default).lruIt) (he2 : e'.keyedIt = (s.slots.getD idx default).keyedIt)
    (he3 : e'.ttlIt = m.id) (he4 : e'.expire = d) (hm1 : m.slot = idx)
    (hm2 : ∀ x ∈ s.ttlq, x.id ≠ old.id → x.id ≠ m.id) (hm3 : m.id < nT) (hm4 : s.nextT ≤ nT)
    (hm5 : s.kind = .tlru → m.dl = d) :
    Good kind cap (refiled s idx e' old m d nT) u f := by
  have hi : idx ∈ u := hos ▸ h.tslot_mem old hold
  have hlt : idx < s.slots.length := h.lt_u hi
  have hperm := fileT_perm { s with slots := s.slots.set idx e' }
    (s.ttlq.filter (fun n => !(n.id == old.id))) m d
  have hmem : ∀ x, x ∈ (refiled s idx e' old m d nT).ttlq ↔
      x = m ∨ x ∈ s.ttlq.filter (fun n => !(n.id == old.id)) := fun x => mem_fileT
  have hrest : ∀ x ∈ s.ttlq.filter (fun n => !(n.id == old.id)), x ∈ s.ttlq ∧ x.id ≠ old.id ∧ x.slot ≠ idx := by
    intro x hx
    obtain ⟨hx1, hx2⟩ := List.mem_filter.mp hx
    refine ⟨hx1, ?_, hos ▸ (not_mem_tid_iff h hold hx1).mp hx2⟩
    simpa using hx2
  exact {
    kind := h.kind
    ub := h.ub
    cpos := h.cpos
    slen := by simp [refiled, h.slen]
    list := h.list
    nodup := h.nodup
    len := h.len
    lt := h.lt
    lend := h.lend
    used := h.used
    ids := h.ids
    idlt := h.idlt
    kkeys := h.kkeys
    kslots := h.kslots
    slot_mem := h.slot_mem
    mem_slot := h.mem_slot
    its := by
      intro n hn
      show ((s.slots.set idx e').getD n.slot default).lruIt = _ ∧ ((s.slots.set idx e').getD n.slot default).keyedIt = _
      by_cases e : idx = n.slot
      · subst e
        rw [getD_set_self hlt, he1, he2]
        exact h.its n hn
      · rw [getD_set_ne e]
        exact h.its n hn
    tids := by
      refine pairwise_of_perm (fun a b hab => hab.symm) hperm ?_
      rw [List.pairwise_cons]
      exact ⟨fun a ha => (hm2 a (hrest a ha).1 (hrest a ha).2.1).symm, h.tids.filter _⟩
    tidlt := by
      intro x hx
      show x.id < nT
      rcases (hmem x).mp hx with hx | hx
      · subst hx; exact hm3
      · exact Nat.lt_of_lt_of_le (h.tidlt x (hrest x hx).1) hm4
    tslots := by
      refine pairwise_of_perm (fun a b hab => hab.symm) hperm ?_
      rw [List.pairwise_cons]
      refine ⟨fun a ha e => ?_, h.tslots.filter _⟩
      exact (hrest a ha).2.2 (e ▸ hm1)
    tslot_mem := by
      intro x hx
      rcases (hmem x).mp hx with hx | hx
      · subst hx; rw [hm1]; exact hi
      · exact h.tslot_mem x (hrest x hx).1
    mem_tslot := by
      intro x hx
      by_cases e : x = idx
      · subst e
        exact ⟨m, (hmem m).mpr (Or.inl rfl), hm1⟩
      · obtain ⟨t, ht, hts⟩ := h.mem_tslot x hx
        refine ⟨t, (hmem t).mpr (Or.inr (List.mem_filter.mpr ⟨ht, ?_⟩)), hts⟩
        exact (not_mem_tid_iff h hold ht).mpr (by rw [hts, hos]; exact e)
    tit := by
      intro x hx
      show ((s.slots.set idx e').getD x.slot default).ttlIt = _
      rcases (hmem x).mp hx with hx | hx
      · subst hx
        rw [hm1, getD_set_self hlt, he3]
      · rw [getD_set_ne (fun e => (hrest x hx).2.2 e.symm)]
        exact h.tit x (hrest x hx).1
    tdl := by
      intro hkd x hx
      have hkd' : s.kind = .tlru := hkd
      show x.dl = ((s.slots.set idx e').getD x.slot default).expire
      rcases (hmem x).mp hx with hx | hx
      · subst hx
        rw [hm1, getD_set_self hlt, he4]
        exact hm5 hkd'
      · rw [getD_set_ne (fun e => (hrest x hx).2.2 e.symm)]
        exact h.tdl hkd' x (hrest x hx).1 }

end

/-! ## `entryOf` across the state updates -/

theorem pairOf_congr {s s' : TState} {x : Nat} (e : entryOf s' x = entryOf s x) : pairOf s' x = pairOf s x := by
  simp only [pairOf, e]

theorem entryOf_refiled_ne (s : TState) {idx x : Nat} (hne : idx ≠ x) (e' : TSlot) (old m : TNode) (d : Time)
    (nT : Nat) : entryOf (refiled s idx e' old m d nT) x = entryOf s x := by
  simp only [entryOf, refiled, keyOf, getD_set_ne hne]

theorem entryOf_refiled_self (s : TState) {idx : Nat} (hi : idx < s.slots.length) (e' : TSlot) (old m : TNode)
    (d : Time) (nT : Nat) :
    entryOf (refiled s idx e' old m d nT) idx = { key := keyOf s idx, val := e'.val, dl := e'.expire } := by
  simp only [entryOf, refiled, keyOf, getD_set_self hi]

section
variable {kind : TKind} {cap : Nat} {s : TState} {u f : List Nat}

theorem abs_of {s' : TState} {u' f' : List Nat} (h' : Good kind cap s' u' f') {ttl : Nat}
    {ents : List Entry} {tq : List (Time × Key)} (ht : s'.ttl = ttl)
    (he : u'.reverse.map (entryOf s') = ents) (hq : (s'.ttlq.map (·.slot)).map (pairOf s') = tq) :
    abs s' = { cap := cap, ttl := ttl, ents := ents, tq := tq } := by
  rw [abs_eq h', ht, he, hq]

theorem abs_ents (h : Good kind cap s u f) : (abs s).ents = u.reverse.map (entryOf s) := by
  rw [abs_eq h]

theorem abs_cap (h : Good kind cap s u f) : (abs s).cap = cap := by
  rw [abs_eq h]

theorem mem_tslots (h : Good kind cap s u f) : ∀ x ∈ s.ttlq.map (·.slot), x ∈ u := by
  intro x hx
  obtain ⟨t, ht, rfl⟩ := List.mem_map.mp hx
  exact h.tslot_mem t ht

theorem entryOf_doAccess (h : Good kind cap s u f) {i : Nat} (hi : i ∈ u) (x : Nat) :
    entryOf (doAccess s i) x = entryOf s x := by
  rw [doAccess_eq h hi]; rfl

theorem entryOf_erased (h : Good kind cap s u f) {n : HNode} (hn : n ∈ s.keyed) {t : TNode} (ht : t ∈ s.ttlq)
    (hts : t.slot = n.slot) {x : Nat} (hx : x ∈ u) (hne : x ≠ n.slot) :
    entryOf (erased s u f n t) x = entryOf s x := by
  obtain ⟨m, hm, rfl⟩ := h.mem_slot x hx
  have hm' : m ∈ (erased s u f n t).keyed := List.mem_filter.mpr ⟨hm, (not_mem_id_iff h hn hm).mpr hne⟩
  rw [entryOf_node (h.erase hn ht hts) hm', entryOf_node h hm]
  rfl

theorem entryOf_push_old {idx : Nat} {r : List Nat} (h : Good kind cap s u (idx :: r)) {k : Key}
    (hk : ∀ n ∈ s.keyed, n.key ≠ k) (v : Val) (d : Time) {x : Nat} (hx : x ∈ u) :
    entryOf (pushNode s k v d idx) x = entryOf s x := by
  obtain ⟨m, hm, rfl⟩ := h.mem_slot x hx
  have hm' : m ∈ (pushNode s k v d idx).keyed := List.mem_append_left _ hm
  have hne : idx ≠ m.slot := fun e => LList.head_not_mem h.nodup rfl (e ▸ hx)
  rw [entryOf_node (h.push hk v d) hm', entryOf_node h hm]
  show Entry.mk m.key ((s.slots.set idx _).getD m.slot default).val
    ((s.slots.set idx _).getD m.slot default).expire 0 0 0 = _
  rw [getD_set_ne hne]

theorem entryOf_push_new {idx : Nat} {r : List Nat} (h : Good kind cap s u (idx :: r)) {k : Key}
    (hk : ∀ n ∈ s.keyed, n.key ≠ k) (v : Val) (d : Time) :
    entryOf (pushNode s k v d idx) idx = { key := k, val := v, dl := d } := by
  have hlt : idx < s.slots.length := by rw [h.slen]; exact h.lt idx (by simp)
  have hm' : (⟨s.nextNode, k, idx⟩ : HNode) ∈ (pushNode s k v d idx).keyed :=
    List.mem_append_right _ (List.mem_singleton.mpr rfl)
  have := entryOf_node (h.push hk v d) hm'
  rw [show (HNode.mk s.nextNode k idx).slot = idx from rfl] at this
  rw [this]
  show Entry.mk k ((s.slots.set idx _).getD idx default).val
    ((s.slots.set idx _).getD idx default).expire 0 0 0 = _
  rw [getD_set_self hlt]

/-! ## `do_erase` is the L1 `removeKey` -/

theorem abs_erased (h : Good kind cap s u f) {n : HNode} (hn : n ∈ s.keyed) {t : TNode} (ht : t ∈ s.ttlq)
    (hts : t.slot = n.slot) : abs (erased s u f n t) = Tlru.removeKey (abs s) n.key := by
  have hg := h.erase hn ht hts
  have hmem : ∀ x ∈ u.reverse, x ∈ u := fun x hx => List.mem_reverse.mp hx
  rw [abs_eq h]
  refine abs_of hg rfl ?_ ?_
  · rw [delE_map h hmem hn, List.filter_reverse]
    apply List.map_congr_left
    intro x hx
    obtain ⟨hx1, hx2⟩ := LList.mem_filter_ne.mp (List.mem_reverse.mp hx)
    exact entryOf_erased h hn ht hts hx1 hx2
  · rw [unfile_map h (mem_tslots h) hn]
    show ((s.ttlq.filter (fun m => !(m.id == t.id))).map (·.slot)).map _ = _
    rw [map_filter_tid h ht, hts]
    apply List.map_congr_left
    intro x hx
    obtain ⟨hx1, hx2⟩ := LList.mem_filter_ne.mp hx
    exact pairOf_congr (entryOf_erased h hn ht hts (mem_tslots h x hx1) hx2)

/-! ## `do_prune` -/

theorem prune_cons_le {t : TlruState} {now d : Time} {k : Key} {rest : List (Time × Key)}
    (hq : t.tq = (d, k) :: rest) (hd : d ≤ now) : Tlru.prune t now = Tlru.removeKey t k := by
  simp only [Tlru.prune, hq, hd, if_true]

theorem prune_cons_gt {t : TlruState} {now d : Time} {k : Key} {rest : List (Time × Key)} {e : Entry}
    {es : List Entry} (hq : t.tq = (d, k) :: rest) (hd : ¬ d ≤ now) (he : t.ents = e :: es) :
    Tlru.prune t now = Tlru.removeKey t e.key := by
  simp only [Tlru.prune, hq, hd, if_false, he]

theorem abs_tq_cons {x : TNode} {rest : List TNode} (hq : s.ttlq = x :: rest) :
    (abs s).tq = (dlOfNode s x, keyOf s x.slot) :: rest.map (fun n => (dlOfNode s n, keyOf s n.slot)) := by
  show s.ttlq.map _ = _
  rw [hq]; rfl

theorem ttlq_cons_of_pos (h : Good kind cap s u f) (hpos : 0 < u.length) : ∃ x rest, s.ttlq = x :: rest := by
  have := h.ttlq_len
  cases hq : s.ttlq with
  | nil => rw [hq] at this; simp at this; omega
  | cons x rest => exact ⟨x, rest, rfl⟩

theorem doPrune_spec (h : Good kind cap s u []) (now : Time) :
    ∃ n t, n ∈ s.keyed ∧ t ∈ s.ttlq ∧ t.slot = n.slot ∧ doPrune s now = erased s u [] n t ∧
      Tlru.prune (abs s) now = Tlru.removeKey (abs s) n.key := by
  have hlen : u.length = cap := by have := h.len; simpa using this
  have hpos : 0 < s.used := by rw [h.used, hlen]; exact h.cpos
  obtain ⟨x, rest, hq⟩ := ttlq_cons_of_pos h (by rw [hlen]; exact h.cpos)
  have hx : x ∈ s.ttlq := by rw [hq]; simp
  have hxu := h.tslot_mem x hx
  have hlt : ¬ x.slot ≥ s.slots.length := Nat.not_le.mpr (h.lt_u hxu)
  by_cases hd : dlOfNode s x ≤ now
  · obtain ⟨n, hn, hns⟩ := h.mem_slot x.slot hxu
    refine ⟨n, x, hn, hx, hns.symm, ?_, ?_⟩
    · unfold doPrune
      simp only [gt_iff_lt, hpos, if_true, hq, hlt, if_false, hd]
      rw [← hns]
      exact doErase_eq h hn hx hns.symm
    · rw [prune_cons_le (abs_tq_cons hq) hd, ← hns, keyOf_node h hn]
  · obtain ⟨i, hi⟩ : ∃ i, u.getLast? = some i := by
      cases hg : u.getLast? with
      | none =>
        rw [List.getLast?_eq_none_iff] at hg; subst hg
        have := h.cpos; simp at hlen; omega
      | some x => exact ⟨x, rfl⟩
    obtain ⟨dd, rfl⟩ := List.getLast?_eq_some_iff.mp hi
    have hiu : i ∈ dd ++ [i] := by simp
    obtain ⟨n, hn, hns⟩ := h.mem_slot i hiu
    obtain ⟨t, ht, hts⟩ := h.mem_tslot i hiu
    subst hns
    refine ⟨n, t, hn, ht, hts, ?_, ?_⟩
    · have hl : s.lruList.getLast? = some n.slot := by rw [h.list]; simp
      unfold doPrune
      simp only [gt_iff_lt, hpos, if_true, hq, hlt, if_false, hd, hl]
      exact doErase_eq h hn ht hts
    · have he : (abs s).ents = entryOf s n.slot :: dd.reverse.map (entryOf s) := by
        rw [abs_ents h]; simp
      rw [prune_cons_gt (abs_tq_cons hq) hd he, entryOf_node h hn]

/-! ## `do_insert` -/

/-- the creating branch of the L1 `insert1` -/
def l1push (t : TlruState) (k : Key) (v : Val) (d : Time) : TlruState :=
  { t with ents := t.ents ++ [{ key := k, val := v, dl := d }], tq := Tlru.fileDl t.tq d k }

theorem doInsert_eq {s s1 : TState} {u1 r : List Nat} {idx : Nat} {now : Time}
    (h1 : Good kind cap s1 u1 (idx :: r))
    (hs1 : (if s.used ≥ s.slots.length then doPrune s now else s) = s1) (k : Key) (v : Val) (d : Time) :
    doInsert s now k v d = doAccess (pushNode s1 k v d idx) idx := by
  have hlt : ¬ idx ≥ s1.slots.length := by
    rw [h1.slen]; exact Nat.not_le.mpr (h1.lt idx (by simp))
  have hend : s1.lruEnd = some idx := h1.lend
  have hub : ¬ s1.ub = true := by rw [h1.ub]; simp
  unfold doInsert
  simp only [hs1]
  rw [if_neg hub]
  split
  · next hnone => rw [hend] at hnone; cases hnone
  · next idx' he =>
    rw [hend] at he
    cases he
    rw [if_neg hlt]
    rfl

theorem finish_spec {idx : Nat} {r : List Nat} (h : Good kind cap s u (idx :: r)) {k : Key}
    (hk : ∀ n ∈ s.keyed, n.key ≠ k) (v : Val) (d : Time) :
    Good kind cap (doAccess (pushNode s k v d idx) idx) (idx :: u) r ∧
    abs (doAccess (pushNode s k v d idx) idx) = l1push (abs s) k v d := by
  have h2 := h.push hk v d
  have hidx : idx ∉ u := LList.head_not_mem h.nodup rfl
  have hmem : idx ∈ u ++ [idx] := by simp
  have hacc : acc (u ++ [idx]) idx = idx :: u := by
    simp [acc, List.filter_append, LList.filter_ne_of_not_mem hidx]
  have hg := h2.access hmem
  rw [hacc] at hg
  refine ⟨hg, ?_⟩
  have hent : ∀ x, entryOf (doAccess (pushNode s k v d idx) idx) x = entryOf (pushNode s k v d idx) x :=
    fun x => entryOf_doAccess h2 hmem x
  have hnew := entryOf_push_new h hk v d
  rw [abs_eq h]
  refine abs_of hg (by rw [doAccess_eq h2 hmem]; rfl) ?_ ?_
  · rw [List.reverse_cons, List.map_append]
    congr 1
    · apply List.map_congr_left
      intro x hx
      rw [hent, entryOf_push_old h hk v d (List.mem_reverse.mp hx)]
    · simp only [List.map_cons, List.map_nil, hent, hnew]
  · have hq : (doAccess (pushNode s k v d idx) idx).ttlq =
        fileT { s with slots := s.slots.set idx ⟨v, d, idx, s.nextT, s.nextNode⟩ } s.ttlq (newT s d idx) d := by
      rw [doAccess_eq h2 hmem]; rfl
    rw [hq, List.map_map]
    rw [map_fileT _ _ s.ttlq (newT s d idx) d k]
    · show Tlru.fileDl _ d k = Tlru.fileDl _ d k
      congr 1
      rw [List.map_map]
      apply List.map_congr_left
      intro x hx
      simp only [Function.comp]
      exact pairOf_congr ((hent _).trans (entryOf_push_old h hk v d (h.tslot_mem x hx)))
    · intro x hx
      have hx2 : x ∈ (pushNode s k v d idx).ttlq := mem_fileT.mpr (Or.inr hx)
      have := h2.dlOfNode hx2
      simp only [Function.comp, pairOf, hent]
      exact this.symm
    · simp only [Function.comp, pairOf, hent]
      show ((entryOf (pushNode s k v d idx) idx).dl, (entryOf (pushNode s k v d idx) idx).key) = _
      rw [hnew]

theorem doInsert_spec (h : Good kind cap s u f) {k : Key} (hk : ∀ n ∈ s.keyed, n.key ≠ k) (now : Time)
    (v : Val) (d : Time) :
    (∃ u' f', Good kind cap (doInsert s now k v d) u' f') ∧
      abs (doInsert s now k v d) =
        l1push (if (abs s).ents.length ≥ (abs s).cap then Tlru.prune (abs s) now else abs s) k v d := by
  have hel : (abs s).ents.length = u.length := by rw [abs_ents h]; simp
  rw [hel, abs_cap h]
  by_cases hfull : s.used ≥ s.slots.length
  · have hul : u.length ≥ cap := by rw [← h.used, ← h.slen]; exact hfull
    have hf : f = [] := by
      have := h.len
      cases f with
      | nil => rfl
      | cons a b => simp at this; omega
    subst hf
    obtain ⟨n, t, hn, ht, hts, hpr, hl1⟩ := doPrune_spec h now
    have h1 := h.erase hn ht hts
    have hs1 : (if s.used ≥ s.slots.length then doPrune s now else s) = erased s u [] n t := by
      rw [if_pos hfull, hpr]
    have hk1 : ∀ m ∈ (erased s u [] n t).keyed, m.key ≠ k :=
      fun m hm => hk m (List.mem_filter.mp hm).1
    obtain ⟨hg, he⟩ := finish_spec h1 hk1 v d
    rw [← doInsert_eq h1 hs1 k v d] at hg he
    refine ⟨⟨_, _, hg⟩, ?_⟩
    rw [he, if_pos hul, hl1, abs_erased h hn ht hts]
  · have hul : ¬ u.length ≥ cap := by rw [← h.used, ← h.slen]; exact hfull
    obtain ⟨idx, r, rfl⟩ : ∃ idx r, f = idx :: r := by
      have := h.len
      cases f with
      | nil => simp at this; omega
      | cons a b => exact ⟨a, b, rfl⟩
    have hs1 : (if s.used ≥ s.slots.length then doPrune s now else s) = s := by rw [if_neg hfull]
    obtain ⟨hg, he⟩ := finish_spec h hk v d
    rw [← doInsert_eq h hs1 k v d] at hg he
    refine ⟨⟨_, _, hg⟩, ?_⟩
    rw [he, if_neg hul]

end

/-! ## `do_update` -/

/-- the state `do_update` reaches before its `do_access`: tlru erases the ttl node and emplaces a new
one, utlru re-files the same node -/
def upd (s : TState) (idx : Nat) (v : Val) (d : Time) (old : TNode) : TState :=
  match s.kind with
  | .tlru => refiled s idx { s.slots.getD idx default with val := v, expire := d, ttlIt := s.nextT } old
      ⟨s.nextT, d, idx⟩ d (s.nextT + 1)
  | .utlru => refiled s idx { s.slots.getD idx default with val := v, expire := d } old old d s.nextT

section
variable {kind : TKind} {cap : Nat} {s : TState} {u f : List Nat}

theorem doUpdate_eq (h : Good kind cap s u f) {old : TNode} (hold : old ∈ s.ttlq) (v : Val) (d : Time) :
    doUpdate s old.slot v d = doAccess (upd s old.slot v d old) old.slot := by
  have hlt : ¬ old.slot ≥ s.slots.length := Nat.not_le.mpr (h.lt_u (h.tslot_mem old hold))
  have htit := h.tit old hold
  have hfind := find_tid h hold
  unfold doUpdate upd refiled
  simp only [hlt, if_false, htit, hfind]
  cases s.kind <;> rfl

/-- the abstract effect of re-filing slot `n.slot` with value `v` and deadline `d`, then `do_access` -/
theorem refiled_spec (h : Good kind cap s u f) {n : HNode} (hn : n ∈ s.keyed) {e' : TSlot} {old m : TNode}
    {v : Val} {d : Time} {nT : Nat}
    (hold : old ∈ s.ttlq) (hos : old.slot = n.slot)
    (he0 : e'.val = v)
    (he1 : e'.lruIt = (s.slots.getD n.slot default).lruIt)
    (he2 : e'.keyedIt = (s.slots.getD n.slot default).keyedIt)
    (he3 : e'.ttlIt = m.id) (he4 : e'.expire = d) (hm1 : m.slot = n.slot)
    (hm2 : ∀ x ∈ s.ttlq, x.id ≠ old.id → x.id ≠ m.id) (hm3 : m.id < nT) (hm4 : s.nextT ≤ nT)
    (hm5 : s.kind = .tlru → m.dl = d) :
    Good kind cap (doAccess (refiled s n.slot e' old m d nT) n.slot) (acc u n.slot) f ∧
    abs (doAccess (refiled s n.slot e' old m d nT) n.slot) = Tlru.update (abs s) (entryOf s n.slot) v d := by
  have hu := h.slot_mem n hn
  have hlt := h.lt_u hu
  have hr := h.refile hold hos he1 he2 he3 he4 hm1 hm2 hm3 hm4 hm5
  have hg := hr.access hu
  refine ⟨hg, ?_⟩
  have hmem : ∀ x ∈ u.reverse, x ∈ u := fun x hx => List.mem_reverse.mp hx
  have hent : ∀ x, entryOf (doAccess (refiled s n.slot e' old m d nT) n.slot) x =
      entryOf (refiled s n.slot e' old m d nT) x := fun x => entryOf_doAccess hr hu x
  have hkey : (entryOf s n.slot).key = n.key := by rw [entryOf_node h hn]
  have hself : entryOf (refiled s n.slot e' old m d nT) n.slot = { key := n.key, val := v, dl := d } := by
    rw [entryOf_refiled_self s hlt, keyOf_node h hn, he0, he4]
  have hother : ∀ x, x ≠ n.slot → entryOf (doAccess (refiled s n.slot e' old m d nT) n.slot) x = entryOf s x :=
    fun x hx => (hent x).trans (entryOf_refiled_ne s (fun e => hx e.symm) e' old m d nT)
  rw [abs_eq h]
  refine abs_of hg (by rw [doAccess_eq hr hu]; rfl) ?_ ?_
  · show _ = delE (u.reverse.map (entryOf s)) (entryOf s n.slot).key ++ [{ entryOf s n.slot with val := v, dl := d }]
    rw [hkey, delE_map h hmem hn, List.filter_reverse]
    simp only [acc, List.reverse_cons, List.map_append, List.map_cons, List.map_nil]
    congr 1
    · apply List.map_congr_left
      intro x hx
      exact hother x (LList.mem_filter_ne.mp (List.mem_reverse.mp hx)).2
    · rw [hent, hself, entryOf_node h hn]
  · show _ = Tlru.fileDl (Tlru.unfile ((s.ttlq.map (·.slot)).map (pairOf s)) (entryOf s n.slot).key) d
      (entryOf s n.slot).key
    have hq : (doAccess (refiled s n.slot e' old m d nT) n.slot).ttlq =
        fileT { s with slots := s.slots.set n.slot e' } (s.ttlq.filter (fun x => !(x.id == old.id))) m d := by
      rw [doAccess_eq hr hu]; rfl
    rw [hq, List.map_map, hkey]
    rw [map_fileT _ _ (s.ttlq.filter (fun x => !(x.id == old.id))) m d n.key]
    · congr 1
      have hmf := map_filter_tid h hold
      rw [hos] at hmf
      rw [unfile_map h (mem_tslots h) hn, ← hmf, List.map_map]
      apply List.map_congr_left
      intro x hx
      obtain ⟨hx1, hx2⟩ := List.mem_filter.mp hx
      simp only [Function.comp]
      apply pairOf_congr
      apply hother
      exact hos ▸ (not_mem_tid_iff h hold hx1).mp hx2
    · intro x hx
      have hx2 : x ∈ (refiled s n.slot e' old m d nT).ttlq := mem_fileT.mpr (Or.inr hx)
      have := hr.dlOfNode hx2
      simp only [Function.comp, pairOf, hent]
      exact this.symm
    · simp only [Function.comp, pairOf, hent, hm1, hself]

theorem upd_spec (h : Good kind cap s u f) {n : HNode} (hn : n ∈ s.keyed) {old : TNode}
    (hold : old ∈ s.ttlq) (hos : old.slot = n.slot) (v : Val) (d : Time) :
    Good kind cap (doUpdate s n.slot v d) (acc u n.slot) f ∧
    abs (doUpdate s n.slot v d) = Tlru.update (abs s) (entryOf s n.slot) v d := by
  have e := doUpdate_eq h hold v d
  rw [hos] at e
  rw [e]
  unfold upd
  cases hk : s.kind with
  | tlru =>
    exact refiled_spec h hn hold hos rfl rfl rfl rfl rfl rfl
      (fun x hx _ => Nat.ne_of_lt (h.tidlt x hx)) (Nat.lt_succ_self _) (Nat.le_succ _) (fun _ => rfl)
  | utlru =>
    refine refiled_spec h hn hold hos rfl rfl rfl ?_ rfl hos (fun x _ hne => hne) (h.tidlt old hold)
      (Nat.le_refl _) (fun hk' => ?_)
    · rw [← hos]; exact h.tit old hold
    · rw [hk] at hk'; cases hk'

end

/-! ## one-step simulation of the single-key primitives -/

local macro "triv" : tactic => `(tactic| first | rfl | trivial)

section
variable {kind : TKind} {cap : Nat} {s : TState} {u f : List Nat}

theorem sim_insert1 (h : Good kind cap s u f) (now : Time) (k : Key) (v : Val) (a : Allow) (d : Time) :
    (insert1 s now k v a d).2 = (Tlru.insert1 (abs s) now k v a d).2 ∧
    abs (insert1 s now k v a d).1 = (Tlru.insert1 (abs s) now k v a d).1 ∧
    ∃ u' f', Good kind cap (insert1 s now k v a d).1 u' f' := by
  have hmem : ∀ x ∈ u.reverse, x ∈ u := fun x hx => List.mem_reverse.mp hx
  have hub : ¬ s.ub = true := by rw [h.ub]; simp
  unfold insert1 Tlru.insert1
  rw [if_neg hub, abs_ents h]
  cases hf : findNode s k with
  | none =>
    simp only [getE_map_none h hmem hf]
    by_cases ha : a.ins = true
    · simp only [ha, if_true]
      obtain ⟨⟨u', f', hg⟩, he⟩ := doInsert_spec h (findNode_none hf) now v d
      rw [abs_ents h] at he
      exact ⟨by triv, he, u', f', hg⟩
    · simp only [ha, Bool.false_eq_true, if_false]
      exact ⟨by triv, by triv, u, f, h⟩
  | some n =>
    obtain ⟨hn, hkn⟩ := findNode_some hf
    subst hkn
    have hu := h.slot_mem n hn
    obtain ⟨old, hold, hos⟩ := h.mem_tslot n.slot hu
    obtain ⟨hg, he⟩ := upd_spec h hn hold hos v d
    simp only [getE_map_some h hmem hf (List.mem_reverse.mpr hu)]
    by_cases ha : a.upd = true
    · simp only [ha, if_true]
      exact ⟨by triv, he, _, _, hg⟩
    · simp only [ha, Bool.false_eq_true, if_false]
      by_cases hi : a.ins = true
      · have hlt : ¬ n.slot ≥ s.slots.length := Nat.not_le.mpr (h.lt_u hu)
        have hdl : (entryOf s n.slot).dl = (s.slots.getD n.slot default).expire := rfl
        simp only [hi, if_true, hlt, if_false, hdl]
        by_cases hexp : (s.slots.getD n.slot default).expire ≤ now
        · simp only [hexp, if_true]
          exact ⟨by triv, he, _, _, hg⟩
        · simp only [hexp, if_false]
          exact ⟨by triv, by triv, u, f, h⟩
      · simp only [hi, Bool.false_eq_true, if_false]
        exact ⟨by triv, by triv, u, f, h⟩

theorem sim_find1 (h : Good kind cap s u f) (now : Time) (k : Key) (peek : Bool) :
    (find1 s now k peek).2 = (Tlru.find1 (abs s) now k peek).2 ∧
    abs (find1 s now k peek).1 = (Tlru.find1 (abs s) now k peek).1 ∧
    ∃ u' f', Good kind cap (find1 s now k peek).1 u' f' := by
  have hmem : ∀ x ∈ u.reverse, x ∈ u := fun x hx => List.mem_reverse.mp hx
  have hub : ¬ s.ub = true := by rw [h.ub]; simp
  unfold find1 Tlru.find1
  rw [if_neg hub, abs_ents h]
  cases hf : findNode s k with
  | none =>
    simp only [getE_map_none h hmem hf]
    exact ⟨by triv, by triv, u, f, h⟩
  | some n =>
    obtain ⟨hn, hkn⟩ := findNode_some hf
    subst hkn
    have hu := h.slot_mem n hn
    have hlt : ¬ n.slot ≥ s.slots.length := Nat.not_le.mpr (h.lt_u hu)
    have hdl : (entryOf s n.slot).dl = (s.slots.getD n.slot default).expire := rfl
    simp only [getE_map_some h hmem hf (List.mem_reverse.mpr hu), hlt, if_false, hdl]
    by_cases hlive : now < (s.slots.getD n.slot default).expire
    · simp only [hlive, if_true]
      cases peek with
      | true =>
        simp only [if_true]
        exact ⟨by triv, by triv, u, f, h⟩
      | false =>
        simp only [Bool.false_eq_true, if_false]
        have hacc := h.access hu
        refine ⟨by triv, ?_, _, _, hacc⟩
        rw [abs_eq h]
        refine abs_of hacc (by rw [doAccess_eq h hu]) ?_ (by rw [doAccess_eq h hu]; rfl)
        have hkey : (entryOf s n.slot).key = n.key := by rw [entryOf_node h hn]
        rw [delE_map h hmem hn, List.filter_reverse]
        simp only [acc, List.reverse_cons, List.map_append, List.map_cons, List.map_nil]
        congr 1
        · apply List.map_congr_left
          intro x hx
          rw [entryOf_doAccess h hu]
        · rw [entryOf_doAccess h hu]
    · simp only [hlive, if_false]
      obtain ⟨t, ht, hts⟩ := h.mem_tslot n.slot hu
      rw [doErase_eq h hn ht hts]
      exact ⟨by triv, abs_erased h hn ht hts, _, _, h.erase hn ht hts⟩

theorem sim_erase1 (h : Good kind cap s u f) (k : Key) :
    (erase1 s k).2 = (Tlru.erase1 (abs s) k).2 ∧
    abs (erase1 s k).1 = (Tlru.erase1 (abs s) k).1 ∧
    ∃ u' f', Good kind cap (erase1 s k).1 u' f' := by
  have hmem : ∀ x ∈ u.reverse, x ∈ u := fun x hx => List.mem_reverse.mp hx
  have hub : ¬ s.ub = true := by rw [h.ub]; simp
  unfold erase1 Tlru.erase1
  rw [if_neg hub, abs_ents h]
  cases hf : findNode s k with
  | none =>
    simp only [getE_map_none h hmem hf]
    exact ⟨by triv, by triv, u, f, h⟩
  | some n =>
    obtain ⟨hn, hkn⟩ := findNode_some hf
    subst hkn
    have hu := h.slot_mem n hn
    simp only [getE_map_some h hmem hf (List.mem_reverse.mpr hu)]
    obtain ⟨t, ht, hts⟩ := h.mem_tslot n.slot hu
    rw [doErase_eq h hn ht hts]
    exact ⟨by triv, abs_erased h hn ht hts, _, _, h.erase hn ht hts⟩

end

/-! ## `clean_expired_values` -/

theorem l1clean_cons_le {now d : Time} {k : Key} {rest : List (Time × Key)} (hd : d ≤ now) :
    Tlru.cleanLoop now ((d, k) :: rest) = k :: Tlru.cleanLoop now rest := by
  simp only [Tlru.cleanLoop, hd, if_true]

theorem l1clean_cons_gt {now d : Time} {k : Key} {rest : List (Time × Key)} (hd : ¬ d ≤ now) :
    Tlru.cleanLoop now ((d, k) :: rest) = [] := by
  simp only [Tlru.cleanLoop, hd, if_false]

section
variable {kind : TKind} {cap : Nat} {s : TState} {u f : List Nat}

theorem filter_head (h : Good kind cap s u f) {x : TNode} {rest : List TNode} (hq : s.ttlq = x :: rest) :
    s.ttlq.filter (fun m => !(m.id == x.id)) = rest := by
  have hp := h.tids
  rw [hq, List.pairwise_cons] at hp
  rw [hq, List.filter_cons]
  simp only [beq_self_eq_true, Bool.not_true, Bool.false_eq_true, if_false]
  rw [List.filter_eq_self]
  intro y hy
  have := hp.1 y hy
  simp only [Bool.not_eq_true', beq_eq_false_iff_ne, ne_eq]
  exact fun e => this e.symm

/-- erasing the head node of the ttl structure leaves the abstract tail -/
theorem abs_tq_erased_head (h : Good kind cap s u f) {x : TNode} {rest : List TNode} (hq : s.ttlq = x :: rest)
    {n : HNode} (hn : n ∈ s.keyed) (hts : x.slot = n.slot) :
    (abs (erased s u f n x)).tq = rest.map (fun m => (dlOfNode s m, keyOf s m.slot)) := by
  have hx : x ∈ s.ttlq := by rw [hq]; simp
  have hp := h.tslots
  rw [hq, List.pairwise_cons] at hp
  show (s.ttlq.filter (fun m => !(m.id == x.id))).map _ = _
  rw [filter_head h hq]
  apply List.map_congr_left
  intro m hm
  have hm' : m ∈ s.ttlq := by rw [hq]; exact List.mem_cons_of_mem _ hm
  have hne : m.slot ≠ n.slot := fun e => hp.1 m hm (hts.trans e.symm)
  have hk : keyOf (erased s u f n x) m.slot = keyOf s m.slot :=
    congrArg Entry.key (entryOf_erased h hn hx hts (h.tslot_mem m hm') hne)
  rw [hk]
  rfl

end

theorem cleanLoop_spec {kind : TKind} {cap : Nat} (now : Time) :
    ∀ (fuel : Nat) (s : TState) (u f : List Nat) (c : Nat), Good kind cap s u f → s.ttlq.length < fuel →
      (∃ u' f', Good kind cap (cleanLoop now fuel s c).1 u' f') ∧
      abs (cleanLoop now fuel s c).1 = (Tlru.cleanLoop now (abs s).tq).foldl Tlru.removeKey (abs s) ∧
      (cleanLoop now fuel s c).2 = c + (Tlru.cleanLoop now (abs s).tq).length := by
  intro fuel
  induction fuel with
  | zero => intro s u f c _ hl; exact absurd hl (Nat.not_lt_zero _)
  | succ fuel ih =>
    intro s u f c h hl
    have hub : ¬ s.ub = true := by rw [h.ub]; simp
    simp only [cleanLoop]
    rw [if_neg hub]
    by_cases hused : s.used = 0
    · rw [if_pos hused]
      have hu0 : u.length = 0 := by rw [← h.used]; exact hused
      have hq : s.ttlq = [] := List.eq_nil_of_length_eq_zero (by rw [h.ttlq_len]; exact hu0)
      have htq : (abs s).tq = [] := by
        show s.ttlq.map _ = []
        rw [hq]; rfl
      rw [htq]
      exact ⟨⟨u, f, h⟩, rfl, rfl⟩
    · rw [if_neg hused]
      obtain ⟨x, rest, hq⟩ := ttlq_cons_of_pos h (by rw [← h.used]; omega)
      have hx : x ∈ s.ttlq := by rw [hq]; simp
      have hxu := h.tslot_mem x hx
      have hlt : ¬ x.slot ≥ s.slots.length := Nat.not_le.mpr (h.lt_u hxu)
      have htq := abs_tq_cons hq
      simp only [hq]
      rw [if_neg hlt]
      by_cases hd : dlOfNode s x ≤ now
      · rw [if_pos hd]
        obtain ⟨n, hn, hns⟩ := h.mem_slot x.slot hxu
        have he : doErase s x.slot = erased s u f n x := by
          rw [← hns]; exact doErase_eq h hn hx hns.symm
        rw [he]
        have hg1 := h.erase hn hx hns.symm
        have hlen1 : (erased s u f n x).ttlq.length < fuel := by
          show (s.ttlq.filter (fun m => !(m.id == x.id))).length < fuel
          rw [filter_head h hq]
          rw [hq] at hl
          simp only [List.length_cons] at hl
          omega
        obtain ⟨hG, hA, hC⟩ := ih _ _ _ (c + 1) hg1 hlen1
        rw [abs_tq_erased_head h hq hn hns.symm] at hA hC
        rw [abs_erased h hn hx hns.symm] at hA
        have hkx : keyOf s x.slot = n.key := by rw [← hns]; exact keyOf_node h hn
        rw [htq, l1clean_cons_le hd, List.foldl_cons, List.length_cons, hkx]
        exact ⟨hG, hA, by rw [hC]; omega⟩
      · rw [if_neg hd, htq, l1clean_cons_gt hd]
        exact ⟨⟨u, f, h⟩, rfl, rfl⟩

section
variable {kind : TKind} {cap : Nat} {s : TState} {u f : List Nat}

theorem sim_clean (h : Good kind cap s u f) (now : Time) :
    (clean s now).2 = (Tlru.clean (abs s) now).2 ∧
    abs (clean s now).1 = (Tlru.clean (abs s) now).1 ∧
    ∃ u' f', Good kind cap (clean s now).1 u' f' := by
  have hub : ¬ s.ub = true := by rw [h.ub]; simp
  unfold clean Tlru.clean
  rw [if_neg hub]
  obtain ⟨hG, hA, hC⟩ := cleanLoop_spec now (s.ttlq.length + 1) s u f 0 h (Nat.lt_succ_self _)
  exact ⟨by rw [hC]; simp, hA, hG⟩

/-! ## `clear`, `update_ttl` -/

theorem Good.setTtl (h : Good kind cap s u f) (x : Nat) : Good kind cap { s with ttl := x } u f :=
  ⟨h.kind, h.ub, h.cpos, h.slen, h.list, h.nodup, h.len, h.lt, h.lend, h.used, h.ids, h.idlt, h.kkeys,
    h.kslots, h.slot_mem, h.mem_slot, h.its, h.tids, h.tidlt, h.tslots, h.tslot_mem, h.mem_tslot, h.tit, h.tdl⟩

theorem good_reset (kind : TKind) {cap : Nat} (hcap : 0 < cap) (s : TState) (hk : s.kind = kind)
    (hub : s.ub = false) (hs : s.slots.length = cap) :
    Good kind cap { s with lruList := List.range cap, lruEnd := (List.range cap).head?, keyed := [],
                           ttlq := [], used := 0 } [] (List.range cap) where
  kind := hk
  ub := hub
  cpos := hcap
  slen := hs
  list := rfl
  nodup := by simpa using List.nodup_range
  len := by simp
  lt := by intro x hx; simpa using hx
  lend := rfl
  used := rfl
  ids := List.Pairwise.nil
  idlt := by intro n hn; cases hn
  kkeys := List.Pairwise.nil
  kslots := List.Pairwise.nil
  slot_mem := by intro n hn; cases hn
  mem_slot := by intro x hx; cases hx
  its := by intro n hn; cases hn
  tids := List.Pairwise.nil
  tidlt := by intro n hn; cases hn
  tslots := List.Pairwise.nil
  tslot_mem := by intro n hn; cases hn
  mem_tslot := by intro x hx; cases hx
  tit := by intro n hn; cases hn
  tdl := by intro _ n hn; cases hn

theorem sim_clear (h : Good kind cap s u f) :
    abs (clear s) = { abs s with ents := [], tq := [] } ∧ ∃ u' f', Good kind cap (clear s) u' f' := by
  have hub : ¬ s.ub = true := by rw [h.ub]; simp
  unfold clear
  rw [if_neg hub]
  by_cases hpos : s.used > 0
  · rw [if_pos hpos]
    have hll : s.lruList.length = cap := by rw [h.list, List.length_append]; exact h.len
    rw [hll]
    have hg := good_reset kind h.cpos s h.kind h.ub h.slen
    refine ⟨?_, _, _, hg⟩
    rw [abs_eq h]
    exact abs_of hg rfl rfl rfl
  · rw [if_neg hpos]
    have hu0 : u.length = 0 := by rw [← h.used]; omega
    have hu : u = [] := List.eq_nil_of_length_eq_zero hu0
    have hq : s.ttlq = [] := List.eq_nil_of_length_eq_zero (by rw [h.ttlq_len]; exact hu0)
    refine ⟨?_, u, f, h⟩
    rw [abs_eq h, hq, hu]
    rfl

end

/-! ## the simulation relation and the two theorems -/

def Rel (kind : TKind) (cap : Nat) (s : TState) (t : TlruState) : Prop :=
  (∃ u f, Good kind cap s u f) ∧ abs s = t

theorem good_init (kind : TKind) {cap : Nat} (hcap : 0 < cap) (ttlMs : Nat) :
    Good kind cap (init kind cap ttlMs) [] (List.range cap) :=
  good_reset kind hcap (init kind cap ttlMs) rfl rfl (by simp [init])

theorem rel_init (kind : TKind) {cap : Nat} (hcap : 0 < cap) (ttlMs : Nat) :
    Rel kind cap (init kind cap (ttlArg kind ttlMs)) (l1init kind cap ttlMs) := by
  refine ⟨⟨_, _, good_init kind hcap _⟩, ?_⟩
  rw [abs_eq (good_init kind hcap _)]
  cases kind
  · show TlruState.mk cap (0 * msNs) [] [] = TlruState.mk cap 0 [] []
    rw [Nat.zero_mul]
  · rfl

theorem sim (kind : TKind) (cap : Nat) : SimC (coreOf kind) (l1core kind) (Rel kind cap) where
  pre s t now hr := by cases kind <;> exact hr
  insert1 s t now k v a ttl hr := by
    obtain ⟨⟨u, f, h⟩, rfl⟩ := hr
    cases kind with
    | tlru =>
      obtain ⟨h1, h2, h3⟩ := sim_insert1 h now k v a (now + ttl * msNs)
      exact ⟨h1, h3, h2⟩
    | utlru =>
      obtain ⟨h1, h2, h3⟩ := sim_insert1 h now k v a (now + s.ttl)
      exact ⟨h1, h3, h2⟩
  find1 s t now k peek hr := by
    obtain ⟨⟨u, f, h⟩, rfl⟩ := hr
    obtain ⟨h1, h2, h3⟩ := sim_find1 h now k peek
    cases kind <;> exact ⟨h1, h3, h2⟩
  erase1 s t k hr := by
    obtain ⟨⟨u, f, h⟩, rfl⟩ := hr
    obtain ⟨h1, h2, h3⟩ := sim_erase1 h k
    cases kind <;> exact ⟨h1, h3, h2⟩
  hasClear := by cases kind <;> rfl
  clear hc s t hr := by
    obtain ⟨⟨u, f, h⟩, rfl⟩ := hr
    obtain ⟨h1, h2⟩ := sim_clear h
    cases kind with
    | tlru => cases hc
    | utlru => exact ⟨h2, h1⟩
  clean s t now hr := by
    obtain ⟨⟨u, f, h⟩, rfl⟩ := hr
    obtain ⟨h1, h2, h3⟩ := sim_clean h now
    cases kind <;> exact ⟨h1, h3, h2⟩
  age s t now hr := by cases kind <;> exact ⟨rfl, hr⟩
  updateTtl s t x hr := by
    obtain ⟨⟨u, f, h⟩, rfl⟩ := hr
    cases kind with
    | tlru => exact ⟨⟨u, f, h⟩, rfl⟩
    | utlru =>
      have hub : ¬ s.ub = true := by rw [h.ub]; simp
      show Rel _ _ (if s.ub = true then s else { s with ttl := x * msNs }) _
      rw [if_neg hub]
      exact ⟨⟨u, f, h.setTtl _⟩, rfl⟩
  size s t hr := by
    obtain ⟨⟨u, f, h⟩, rfl⟩ := hr
    have : s.used = (abs s).ents.length := by rw [abs_ents h, h.used]; simp
    cases kind <;> exact this
  capacity s t hr := by
    obtain ⟨⟨u, f, h⟩, rfl⟩ := hr
    cases kind <;> rfl

/-- **C08 (model part), tlru_cache and utlru_cache**: for every capacity ≥ 1 and every history the
slot/iterator-level model never dereferences `end()` or `begin()` of an empty ttl structure, never
decrements `begin()`, never indexes out of range, never erases or splices through a stale iterator. -/
theorem no_ub (kind : TKind) (cap ttlMs : Nat) (hcap : 0 < cap) (ops : List (Time × Op)) :
    ((coreOf kind).run (init kind cap (ttlArg kind ttlMs)) ops).1.ub = false := by
  obtain ⟨_, ⟨u, f, h⟩, _⟩ := (sim kind cap).run ops _ _ (rel_init kind hcap ttlMs)
  exact h.ub

/-- same results as the L1 model on every history; the L2 state abstracts to the L1 state -/
theorem refines_l1 (kind : TKind) (cap ttlMs : Nat) (hcap : 0 < cap) (ops : List (Time × Op)) :
    ((coreOf kind).run (init kind cap (ttlArg kind ttlMs)) ops).2 = ((l1core kind).run (l1init kind cap ttlMs) ops).2 ∧
    abs ((coreOf kind).run (init kind cap (ttlArg kind ttlMs)) ops).1 = ((l1core kind).run (l1init kind cap ttlMs) ops).1 := by
  obtain ⟨h1, _, h2⟩ := (sim kind cap).run ops _ _ (rel_init kind hcap ttlMs)
  exact ⟨h1, h2⟩

end Verif.L2.Ttl
