import Verif.Concrete.Slot
/-!
# Pure list facts about `LList.prev` / `LList.next` / `LList.splice` on a duplicate-free list
`used ++ free`, and a generic one-step simulation between two `Core`s.
-/
namespace Verif.L2.LList

theorem takeWhile_ne_append {u r : List Nat} {p : Nat} (h : p ∉ u) :
    (u ++ p :: r).takeWhile (fun x => !(x == p)) = u := by
  induction u with
  | nil => simp
  | cons a t ih =>
    have hne : a ≠ p := fun e => h (by simp [e])
    have ht : p ∉ t := fun hm => h (List.mem_cons_of_mem _ hm)
    simp [hne, ih ht]

theorem dropWhile_ne_append {u r : List Nat} {p : Nat} (h : p ∉ u) :
    (u ++ p :: r).dropWhile (fun x => !(x == p)) = p :: r := by
  induction u with
  | nil => simp
  | cons a t ih =>
    have hne : a ≠ p := fun e => h (by simp [e])
    have ht : p ∉ t := fun hm => h (List.mem_cons_of_mem _ hm)
    simp [hne, ih ht]

theorem filter_ne_of_not_mem {l : List Nat} {i : Nat} (h : i ∉ l) :
    l.filter (fun x => !(x == i)) = l := by
  rw [List.filter_eq_self]
  intro a ha
  have : a ≠ i := fun e => h (e ▸ ha)
  simp [this]

theorem not_mem_filter_ne (l : List Nat) (i : Nat) : i ∉ l.filter (fun x => !(x == i)) := by
  simp

theorem mem_filter_ne {l : List Nat} {i x : Nat} :
    x ∈ l.filter (fun x => !(x == i)) ↔ x ∈ l ∧ x ≠ i := by
  simp

/-- in a duplicate-free list, moving `i` to the front is a permutation -/
theorem cons_filter_perm {u : List Nat} {i : Nat} (hn : u.Nodup) (hi : i ∈ u) :
    (i :: u.filter (fun x => !(x == i))).Perm u := by
  induction u with
  | nil => cases hi
  | cons h t ih =>
    rw [List.nodup_cons] at hn
    by_cases he : h = i
    · subst he
      have : (h :: t).filter (fun x => !(x == h)) = t := by
        simp only [List.filter_cons, beq_self_eq_true, Bool.not_true, Bool.false_eq_true, if_false]
        exact filter_ne_of_not_mem hn.1
      rw [this]
    · have hit : i ∈ t := by
        rcases List.mem_cons.mp hi with e | e
        · exact absurd e.symm he
        · exact e
      have : (h :: t).filter (fun x => !(x == i)) = h :: t.filter (fun x => !(x == i)) := by
        simp [he]
      rw [this]
      exact (List.Perm.swap _ _ _).trans ((ih hn.2 hit).cons h)

theorem filter_snoc_perm {u : List Nat} {i : Nat} (hn : u.Nodup) (hi : i ∈ u) :
    (u.filter (fun x => !(x == i)) ++ [i]).Perm u :=
  (List.perm_append_singleton _ _).trans (cons_filter_perm hn hi)

theorem length_filter_ne {u : List Nat} {i : Nat} (hn : u.Nodup) (hi : i ∈ u) :
    (u.filter (fun x => !(x == i))).length + 1 = u.length := by
  have := (cons_filter_perm hn hi).length_eq
  simpa using this

/-- the last element of a duplicate-free list: removing it leaves `dropLast` -/
theorem eq_filter_snoc_of_getLast? {u : List Nat} {i : Nat} (hn : u.Nodup) (h : u.getLast? = some i) :
    u = u.filter (fun x => !(x == i)) ++ [i] := by
  obtain ⟨d, rfl⟩ := List.getLast?_eq_some_iff.mp h
  have hd : i ∉ d := by
    intro hm
    exact (List.nodup_append.mp hn).2.2 i hm i (by simp) rfl
  simp [List.filter_append, filter_ne_of_not_mem hd]

theorem filter_ne_eq_dropLast {u : List Nat} {i : Nat} (hn : u.Nodup) (h : u.getLast? = some i) :
    u.filter (fun x => !(x == i)) = u.dropLast := by
  have e := eq_filter_snoc_of_getLast? hn h
  conv => rhs; rw [e]
  simp

/-! ### the list `u ++ f`, partition iterator `f.head?` -/

section
variable {u f : List Nat}

theorem head_not_mem (hn : (u ++ f).Nodup) {p : Nat} {r : List Nat} (hf : f = p :: r) : p ∉ u := by
  subst hf
  intro hm
  exact (List.nodup_append.mp hn).2.2 p hm p (by simp) rfl

theorem takeWhile_partition (hn : (u ++ f).Nodup) {p : Nat} (hf : f.head? = some p) :
    (u ++ f).takeWhile (fun x => !(x == p)) = u := by
  cases f with
  | nil => cases hf
  | cons q r =>
    simp only [List.head?_cons, Option.some.injEq] at hf
    subst hf
    exact takeWhile_ne_append (head_not_mem hn rfl)

/-- `std::prev(m_lru_end)` is the last in-use node -/
theorem prev_partition (hn : (u ++ f).Nodup) : prev (u ++ f) f.head? = u.getLast? := by
  cases f with
  | nil => simp [prev]
  | cons q r =>
    have := takeWhile_ne_append (r := r) (head_not_mem hn rfl)
    simp only [prev, List.head?_cons, this]
    rw [if_neg]
    simp

/-- `splice(m_lru_end, list, it)`: move `i` to just before the partition -/
theorem splice_partition (hn : (u ++ f).Nodup) {i : Nat} (hi : i ∈ u) :
    splice (u ++ f) f.head? i = u.filter (fun x => !(x == i)) ++ i :: f := by
  have hif : i ∉ f := fun hm => (List.nodup_append.mp hn).2.2 i hi i hm rfl
  have hfl : (u ++ f).filter (fun x => !(x == i)) = u.filter (fun x => !(x == i)) ++ f := by
    rw [List.filter_append, filter_ne_of_not_mem hif]
  cases f with
  | nil => simp [splice]
  | cons q r =>
    have hqi : q ≠ i := fun e => hif (by simp [e])
    have hq : q ∉ u.filter (fun x => !(x == i)) := by
      intro hm
      exact head_not_mem hn rfl (List.mem_filter.mp hm).1
    simp only [splice, List.head?_cons, Option.some.injEq, hqi, if_false, hfl]
    rw [takeWhile_ne_append hq, dropWhile_ne_append hq]

/-- `splice(begin(), list, it)`: move `i` to the front -/
theorem splice_front (hn : (u ++ f).Nodup) {i : Nat} (hi : i ∈ u) :
    splice (u ++ f) (u ++ f).head? i = i :: u.filter (fun x => !(x == i)) ++ f := by
  have hif : i ∉ f := fun hm => (List.nodup_append.mp hn).2.2 i hi i hm rfl
  have hfl : (u ++ f).filter (fun x => !(x == i)) = u.filter (fun x => !(x == i)) ++ f := by
    rw [List.filter_append, filter_ne_of_not_mem hif]
  cases u with
  | nil => cases hi
  | cons h t =>
    have hnu : (h :: t).Nodup := (List.nodup_append.mp hn).1
    rw [List.nodup_cons] at hnu
    by_cases he : h = i
    · subst he
      have : (h :: t).filter (fun x => !(x == h)) = t := by
        simp only [List.filter_cons, beq_self_eq_true, Bool.not_true, Bool.false_eq_true, if_false]
        exact filter_ne_of_not_mem hnu.1
      simp [splice, this]
    · have hc : (h :: t).filter (fun x => !(x == i)) = h :: t.filter (fun x => !(x == i)) := by
        simp [he]
      simp only [splice, List.cons_append, List.head?_cons, Option.some.injEq, he, if_false]
      rw [← List.cons_append, hfl, hc]
      simp

/-- `std::next` of the first free node is the second free node -/
theorem next_partition (hn : (u ++ f).Nodup) {p : Nat} {r : List Nat} (hf : f = p :: r) :
    next (u ++ f) p = r.head? := by
  have hp := head_not_mem hn hf
  subst hf
  simp only [next, dropWhile_ne_append hp]
  cases r <;> simp

end

end Verif.L2.LList

namespace Verif

/-- one-step simulation between two cores, through a relation `R` -/
structure Sim {σ τ : Type} (c : Core σ) (d : Core τ) (R : σ → τ → Prop) : Prop where
  pre : ∀ s t now, R s t → R (c.pre s now) (d.pre t now)
  insert1 : ∀ s t now k v a ttl, R s t →
    (c.insert1 s now k v a ttl).2 = (d.insert1 t now k v a ttl).2 ∧
    R (c.insert1 s now k v a ttl).1 (d.insert1 t now k v a ttl).1
  find1 : ∀ s t now k peek, R s t →
    (c.find1 s now k peek).2 = (d.find1 t now k peek).2 ∧
    R (c.find1 s now k peek).1 (d.find1 t now k peek).1
  erase1 : ∀ s t k, R s t →
    (c.erase1 s k).2 = (d.erase1 t k).2 ∧ R (c.erase1 s k).1 (d.erase1 t k).1
  noClearC : c.hasClear = false
  noClearD : d.hasClear = false
  clean : ∀ s t now, R s t → (c.clean s now).2 = (d.clean t now).2 ∧ R (c.clean s now).1 (d.clean t now).1
  age : ∀ s t now, R s t → (c.age s now).2 = (d.age t now).2 ∧ R (c.age s now).1 (d.age t now).1
  updateTtl : ∀ s t x, R s t → R (c.updateTtl s x) (d.updateTtl t x)
  size : ∀ s t, R s t → c.size s = d.size t
  capacity : ∀ s t, R s t → c.capacity s = d.capacity t

namespace Sim
variable {σ τ : Type} {c : Core σ} {d : Core τ} {R : σ → τ → Prop}

theorem insertMany (h : Sim c d R) (now : Time) (a : Allow) (xs : List (Key × Val × Nat)) :
    ∀ s t, R s t → (c.insertMany s now a xs).2 = (d.insertMany t now a xs).2 ∧
      R (c.insertMany s now a xs).1 (d.insertMany t now a xs).1 := by
  induction xs with
  | nil => intro s t hr; exact ⟨rfl, hr⟩
  | cons x xs ih =>
    intro s t hr
    obtain ⟨k, v, ttl⟩ := x
    have h1 := h.insert1 s t now k v a ttl hr
    have h2 := ih _ _ h1.2
    simp only [Core.insertMany]
    exact ⟨by rw [h1.1, h2.1], h2.2⟩

theorem findMany (h : Sim c d R) (now : Time) (peek : Bool) (ks : List Key) :
    ∀ s t, R s t → (c.findMany s now peek ks).2 = (d.findMany t now peek ks).2 ∧
      R (c.findMany s now peek ks).1 (d.findMany t now peek ks).1 := by
  induction ks with
  | nil => intro s t hr; exact ⟨rfl, hr⟩
  | cons k ks ih =>
    intro s t hr
    have h1 := h.find1 s t now k peek hr
    have h2 := ih _ _ h1.2
    simp only [Core.findMany]
    exact ⟨by rw [h1.1, h2.1], h2.2⟩

theorem eraseMany (h : Sim c d R) (ks : List Key) :
    ∀ s t, R s t → (c.eraseMany s ks).2 = (d.eraseMany t ks).2 ∧
      R (c.eraseMany s ks).1 (d.eraseMany t ks).1 := by
  induction ks with
  | nil => intro s t hr; exact ⟨rfl, hr⟩
  | cons k ks ih =>
    intro s t hr
    have h1 := h.erase1 s t k hr
    have h2 := ih _ _ h1.2
    simp only [Core.eraseMany]
    exact ⟨by rw [h1.1, h2.1], h2.2⟩

theorem step (h : Sim c d R) (s : σ) (t : τ) (now : Time) (op : Op) (hr : R s t) :
    (c.step s now op).2 = (d.step t now op).2 ∧ R (c.step s now op).1 (d.step t now op).1 := by
  have hp := h.pre s t now hr
  cases op with
  | insert k v a ttl =>
    have := h.insert1 _ _ now k v a ttl hp
    exact ⟨by simp only [Core.step]; rw [this.1], this.2⟩
  | insertRange xs a =>
    have := h.insertMany now a xs _ _ hp
    exact ⟨by simp only [Core.step]; rw [this.1], this.2⟩
  | find k peek =>
    have := h.find1 _ _ now k peek hp
    exact ⟨by simp only [Core.step]; rw [this.1], this.2⟩
  | findRange ks peek =>
    have := h.findMany now peek ks _ _ hp
    exact ⟨by simp only [Core.step]; rw [this.1], this.2⟩
  | findCount k peek =>
    have := h.find1 _ _ now k peek hp
    exact ⟨by simp only [Core.step]; rw [this.1], this.2⟩
  | erase k =>
    have := h.erase1 _ _ k hp
    exact ⟨by simp only [Core.step]; rw [this.1], this.2⟩
  | eraseRange ks =>
    have := h.eraseMany ks _ _ hp
    exact ⟨by simp only [Core.step]; rw [this.1], this.2⟩
  | clear =>
    simp only [Core.step, h.noClearC, h.noClearD, Bool.false_eq_true, if_false]
    exact ⟨trivial, hr⟩
  | clean =>
    have := h.clean s t now hr
    exact ⟨by simp only [Core.step]; rw [this.1], this.2⟩
  | age =>
    have := h.age s t now hr
    exact ⟨by simp only [Core.step]; rw [this.1], this.2⟩
  | updateTtl x => exact ⟨by simp only [Core.step], h.updateTtl s t x hr⟩
  | size => exact ⟨by simp only [Core.step]; rw [h.size s t hr], hr⟩
  | empty => exact ⟨by simp only [Core.step]; rw [h.size s t hr], hr⟩
  | capacity => exact ⟨by simp only [Core.step]; rw [h.capacity s t hr], hr⟩

theorem run (h : Sim c d R) (ops : List (Time × Op)) :
    ∀ s t, R s t → (c.run s ops).2 = (d.run t ops).2 ∧ R (c.run s ops).1 (d.run t ops).1 := by
  induction ops with
  | nil => intro s t hr; exact ⟨rfl, hr⟩
  | cons x ops ih =>
    intro s t hr
    obtain ⟨now, op⟩ := x
    have h1 := h.step s t now op hr
    have h2 := ih _ _ h1.2
    simp only [Core.run]
    exact ⟨by rw [h1.1, h2.1], h2.2⟩

end Sim
end Verif
