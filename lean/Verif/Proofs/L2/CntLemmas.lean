import Verif.Concrete.Node
import Verif.Model.Lfu
import Verif.Proofs.L2.SlotLemmas
/-!
# L2 `lfu_cache` / `lfuda_cache`: the invariant `Good` and the primitives as explicit state updates

Nothing here mentions the abstraction (`keyOf`, `entsOf`): these are facts about the node-level model only.
-/
namespace Verif.L2.Cnt
open Verif

/-! ## generic list facts -/

/-- pairwise distinct images: injective on members -/
theorem pairwise_inj {α : Type} {g : α → Nat} {l : List α} (h : l.Pairwise (fun a b => g a ≠ g b))
    {a b : α} (ha : a ∈ l) (hb : b ∈ l) (e : g a = g b) : a = b := by
  induction l with
  | nil => cases ha
  | cons x t ih =>
    rw [List.pairwise_cons] at h
    rcases List.mem_cons.mp ha with rfl | ha'
    · rcases List.mem_cons.mp hb with rfl | hb'
      · rfl
      · exact absurd e (h.1 _ hb')
    · rcases List.mem_cons.mp hb with rfl | hb'
      · exact absurd e.symm (h.1 _ ha')
      · exact ih h.2 ha' hb'

theorem find?_unique {α : Type} {g : α → Nat} {l : List α} (h : l.Pairwise (fun a b => g a ≠ g b))
    {a : α} (ha : a ∈ l) : l.find? (fun x => g x == g a) = some a := by
  cases hf : l.find? (fun x => g x == g a) with
  | none =>
    have := List.find?_eq_none.mp hf a ha
    simp at this
  | some m =>
    have hm := List.mem_of_find?_eq_some hf
    have hs := List.find?_some hf
    simp only [beq_iff_eq] at hs
    rw [pairwise_inj h hm ha hs]

theorem find?_congr' {α : Type} {p q : α → Bool} {l : List α} (h : ∀ x ∈ l, p x = q x) :
    l.find? p = l.find? q := by
  induction l with
  | nil => rfl
  | cons a t ih =>
    simp only [List.find?_cons, h a (by simp)]
    rw [ih (fun x hx => h x (List.mem_cons_of_mem _ hx))]

theorem takeWhile_congr' {α : Type} {p q : α → Bool} {l : List α} (h : ∀ x ∈ l, p x = q x) :
    l.takeWhile p = l.takeWhile q := by
  induction l with
  | nil => rfl
  | cons a t ih =>
    simp only [List.takeWhile_cons, h a (by simp)]
    rw [ih (fun x hx => h x (List.mem_cons_of_mem _ hx))]

theorem dropWhile_congr' {α : Type} {p q : α → Bool} {l : List α} (h : ∀ x ∈ l, p x = q x) :
    l.dropWhile p = l.dropWhile q := by
  induction l with
  | nil => rfl
  | cons a t ih =>
    simp only [List.dropWhile_cons, h a (by simp)]
    rw [ih (fun x hx => h x (List.mem_cons_of_mem _ hx))]

theorem getD_set_self {α : Type} {l : List α} {i : Nat} (hi : i < l.length) (x d : α) :
    (l.set i x).getD i d = x := by
  simp [List.getD_eq_getElem?_getD, hi]

theorem getD_set_ne {α : Type} {l : List α} {i j : Nat} (hne : i ≠ j) (x d : α) :
    (l.set i x).getD j d = l.getD j d := by
  simp [List.getD_eq_getElem?_getD, hne]

/-- in a list with pairwise distinct `g`, removing the element with a given `g` shortens it by one -/
theorem length_filter_ne {α : Type} {g : α → Nat} {l : List α} (h : l.Pairwise (fun a b => g a ≠ g b))
    {a : α} (ha : a ∈ l) : (l.filter (fun x => !(g x == g a))).length + 1 = l.length := by
  induction l with
  | nil => cases ha
  | cons x t ih =>
    rw [List.pairwise_cons] at h
    by_cases e : g x = g a
    · have hx : x = a := by
        rcases List.mem_cons.mp ha with e' | e'
        · exact e'.symm
        · exact absurd e (h.1 _ e')
      subst hx
      have : t.filter (fun y => !(g y == g x)) = t := by
        rw [List.filter_eq_self]
        intro y hy
        have : g y ≠ g x := fun e' => h.1 y hy e'.symm
        simp [this]
      simp [this]
    · have hat : a ∈ t := by
        rcases List.mem_cons.mp ha with e' | e'
        · exact absurd (by rw [e']) e
        · exact e'
      have := ih h.2 hat
      simp [e]
      omega

/-! ## `fileQ` (`multimap::emplace`) -/

theorem fileQ_perm (l : List QNode) (x : QNode) : (fileQ l x).Perm (x :: l) := by
  induction l with
  | nil => exact List.Perm.refl _
  | cons y ys ih =>
    simp only [fileQ]
    split
    · exact (ih.cons y).trans (List.Perm.swap x y ys)
    · exact List.Perm.refl _

theorem mem_fileQ {l : List QNode} {x y : QNode} : y ∈ fileQ l x ↔ y = x ∨ y ∈ l := by
  rw [(fileQ_perm l x).mem_iff, List.mem_cons]

theorem length_fileQ (l : List QNode) (x : QNode) : (fileQ l x).length = l.length + 1 := by
  simpa using (fileQ_perm l x).length_eq

theorem pairwise_fileQ {g : QNode → Nat} {l : List QNode} {x : QNode}
    (hl : l.Pairwise (fun a b => g a ≠ g b)) (hx : ∀ y ∈ l, g x ≠ g y) :
    (fileQ l x).Pairwise (fun a b => g a ≠ g b) := by
  rw [(fileQ_perm l x).pairwise_iff (fun h => fun e => h e.symm), List.pairwise_cons]
  exact ⟨hx, hl⟩

/-- `fileQ` on the multimap is `fileCnt` on the entries -/
theorem map_fileQ {g : QNode → Entry} (hg : ∀ q, (g q).cnt = q.cnt) (l : List QNode) (x : QNode) :
    (fileQ l x).map g = fileCnt (l.map g) (g x) := by
  induction l with
  | nil => rfl
  | cons y ys ih =>
    simp only [fileQ, List.map_cons, fileCnt, hg]
    split
    · simp only [List.map_cons, ih]
    · rfl

/-! ## the invariant -/

/-- `Good cap s u f`: no UB so far; the node list is `u ++ f`, a duplicate-free arrangement of
`0 … cap-1`; `u` is the in-use prefix, `m_open_list_end` points at the head of `f`; the hash nodes have
distinct ids, keys and list nodes, and their list nodes are exactly `u`; the multimap nodes have distinct
ids and list nodes, and their list nodes are exactly `u`; each in-use list node points back at its own hash
node and its own multimap node. -/
structure Good (cap : Nat) (s : CState) (u f : List Nat) : Prop where
  ub : s.ub = false
  cpos : 0 < cap
  nlen : s.nodes.length = cap
  list : s.order = u ++ f
  nodup : (u ++ f).Nodup
  len : u.length + f.length = cap
  lt : ∀ x ∈ u ++ f, x < cap
  oend : s.openEnd = f.head?
  used : s.used = u.length
  ids : s.keyed.Pairwise (fun a b => a.id ≠ b.id)
  idlt : ∀ n ∈ s.keyed, n.id < s.nextNode
  kkeys : s.keyed.Pairwise (fun a b => a.key ≠ b.key)
  kslots : s.keyed.Pairwise (fun a b => a.slot ≠ b.slot)
  slot_mem : ∀ n ∈ s.keyed, n.slot ∈ u
  mem_slot : ∀ x ∈ u, ∃ n ∈ s.keyed, n.slot = x
  kit : ∀ n ∈ s.keyed, (s.nodes.getD n.slot default).keyedIt = n.id
  qids : s.lfuq.Pairwise (fun a b => a.id ≠ b.id)
  qidlt : ∀ q ∈ s.lfuq, q.id < s.nextQ
  qnodes : s.lfuq.Pairwise (fun a b => a.node ≠ b.node)
  node_mem : ∀ q ∈ s.lfuq, q.node ∈ u
  mem_node : ∀ x ∈ u, ∃ q ∈ s.lfuq, q.node = x
  qit : ∀ q ∈ s.lfuq, (s.nodes.getD q.node default).lfuIt = q.id

section
variable {cap : Nat} {s : CState} {u f : List Nat}

theorem Good.nodup_u (h : Good cap s u f) : u.Nodup := (List.nodup_append.mp h.nodup).1

theorem Good.lt_u (h : Good cap s u f) {x : Nat} (hx : x ∈ u) : x < s.nodes.length := by
  rw [h.nlen]; exact h.lt x (List.mem_append_left _ hx)

theorem Good.not_ub (h : Good cap s u f) : ¬ s.ub = true := by rw [h.ub]; simp

theorem Good.order_length (h : Good cap s u f) : s.order.length = cap := by
  rw [h.list, List.length_append]; exact h.len

/-- the multimap nodes are a rearrangement of the in-use prefix -/
theorem Good.qperm (h : Good cap s u f) : (s.lfuq.map (·.node)).Perm u := by
  have hn : (s.lfuq.map (·.node)).Nodup := by
    rw [List.Nodup, List.pairwise_map]; exact h.qnodes
  rw [List.perm_ext_iff_of_nodup hn h.nodup_u]
  intro a
  constructor
  · intro ha
    obtain ⟨q, hq, rfl⟩ := List.mem_map.mp ha
    exact h.node_mem q hq
  · intro ha
    obtain ⟨q, hq, rfl⟩ := h.mem_node a ha
    exact List.mem_map_of_mem hq

theorem Good.qlen (h : Good cap s u f) : s.lfuq.length = u.length := by
  simpa using h.qperm.length_eq

theorem Good.in_order (h : Good cap s u f) {x : Nat} (hx : x ∈ u) : s.order.contains x = true := by
  rw [List.contains_iff_mem, h.list]; exact List.mem_append_left _ hx

theorem find_qid (h : Good cap s u f) {q : QNode} (hq : q ∈ s.lfuq) :
    s.lfuq.find? (fun x => x.id == q.id) = some q := find?_unique h.qids hq

theorem find_qnode (h : Good cap s u f) {q : QNode} (hq : q ∈ s.lfuq) :
    s.lfuq.find? (fun x => x.node == q.node) = some q := find?_unique h.qnodes hq

theorem find_slot (h : Good cap s u f) {n : HNode} (hn : n ∈ s.keyed) :
    s.keyed.find? (fun m => m.slot == n.slot) = some n := find?_unique h.kslots hn

theorem any_qid {q : QNode} (hq : q ∈ s.lfuq) : s.lfuq.any (fun x => x.id == q.id) = true := by
  rw [List.any_eq_true]; exact ⟨q, hq, by simp⟩

theorem any_kid {n : HNode} (hn : n ∈ s.keyed) : s.keyed.any (fun x => x.id == n.id) = true := by
  rw [List.any_eq_true]; exact ⟨n, hn, by simp⟩

theorem qid_ne_iff (h : Good cap s u f) {q m : QNode} (hq : q ∈ s.lfuq) (hm : m ∈ s.lfuq) :
    (!(m.id == q.id)) = true ↔ m.node ≠ q.node := by
  simp only [Bool.not_eq_true', beq_eq_false_iff_ne, ne_eq]
  constructor
  · intro hid hs; exact hid (by rw [pairwise_inj h.qnodes hm hq hs])
  · intro hs hid; exact hs (by rw [pairwise_inj h.qids hm hq hid])

theorem kid_ne_iff (h : Good cap s u f) {n m : HNode} (hn : n ∈ s.keyed) (hm : m ∈ s.keyed) :
    (!(m.id == n.id)) = true ↔ m.slot ≠ n.slot := by
  simp only [Bool.not_eq_true', beq_eq_false_iff_ne, ne_eq]
  constructor
  · intro hid hs; exact hid (by rw [pairwise_inj h.kslots hm hn hs])
  · intro hs hid; exact hs (by rw [pairwise_inj h.ids hm hn hid])

/-- removing a multimap node by identity is removing it by list node -/
theorem filter_qid (h : Good cap s u f) {q : QNode} (hq : q ∈ s.lfuq) :
    s.lfuq.filter (fun x => !(x.id == q.id)) = s.lfuq.filter (fun x => !(x.node == q.node)) := by
  apply List.filter_congr
  intro m hm
  by_cases e : m.node = q.node
  · have e' : m.id = q.id := by rw [pairwise_inj h.qnodes hm hq e]
    rw [e, e']; simp
  · have e' : ¬ m.id = q.id := fun hh => e (by rw [pairwise_inj h.qids hm hq hh])
    rw [beq_false_of_ne e, beq_false_of_ne e']

theorem cntOf_of {s : CState} {nd : Nat} {q : QNode}
    (hf : s.lfuq.find? (fun x => x.id == (s.nodes.getD nd default).lfuIt) = some q) :
    cntOf s nd = some q.cnt := by
  unfold cntOf
  rw [hf]; rfl

theorem Good.cntOf (h : Good cap s u f) {q : QNode} (hq : q ∈ s.lfuq) : cntOf s q.node = some q.cnt := by
  apply cntOf_of
  rw [h.qit q hq]; exact find_qid h hq

end

/-! ## re-filing: the explicit state -/

/-- the state after the list node `nd` (multimap node `qid`) is re-filed at count `c`, the node list
is rearranged to `ord`, and the node carries value `v` and stamp `st` -/
def reState (s : CState) (nd qid c : Nat) (ord : List Nat) (v : Val) (st : Time) : CState :=
  { s with order := ord,
           lfuq := fileQ (s.lfuq.filter (fun x => !(x.id == qid))) ⟨s.nextQ, c, nd⟩,
           nextQ := s.nextQ + 1,
           nodes := s.nodes.set nd ⟨v, (s.nodes.getD nd default).keyedIt, s.nextQ, st⟩ }

/-- `refile` when the multimap iterator of `nd` is live -/
theorem refile_eq {s : CState} {nd qid : Nat} (hit : (s.nodes.getD nd default).lfuIt = qid)
    (hany : s.lfuq.any (fun x => x.id == qid) = true) (c : Nat) :
    refile s nd c = reState s nd qid c s.order (s.nodes.getD nd default).val (s.nodes.getD nd default).stamp := by
  unfold refile
  simp only [hit, hany, Bool.not_true, Bool.false_eq_true, if_false]
  rfl

/-- `refile` of a node that was just stamped -/
theorem refile_stamped {s : CState} {nd qid : Nat} (hlt : nd < s.nodes.length)
    (hit : (s.nodes.getD nd default).lfuIt = qid) (hany : s.lfuq.any (fun x => x.id == qid) = true)
    (ord : List Nat) (now : Time) (c : Nat) :
    refile { s with order := ord, nodes := s.nodes.set nd { s.nodes.getD nd default with stamp := now } } nd c
      = reState s nd qid c ord (s.nodes.getD nd default).val now := by
  have hit' : ((s.nodes.set nd { s.nodes.getD nd default with stamp := now }).getD nd default).lfuIt = qid := by
    rw [getD_set_self hlt]; exact hit
  refine (refile_eq (s := { s with order := ord, nodes := s.nodes.set nd { s.nodes.getD nd default with stamp := now } })
    hit' hany c).trans ?_
  simp only [Cnt.reState, getD_set_self hlt, List.set_set]

section
variable {cap : Nat} {s : CState} {u f : List Nat}

theorem Good.reState (h : Good cap s u f) {q : QNode} (hq : q ∈ s.lfuq) {u' : List Nat} (hp : u'.Perm u)
    (c : Nat) (v : Val) (st : Time) :
    Good cap (reState s q.node q.id c (u' ++ f) v st) u' f := by
  have hnd : q.node ∈ u := h.node_mem q hq
  have hlt : q.node < s.nodes.length := h.lt_u hnd
  exact {
    ub := h.ub
    cpos := h.cpos
    nlen := by simp [Cnt.reState, h.nlen]
    list := rfl
    nodup := ((hp.append_right f).nodup_iff).mpr h.nodup
    len := by rw [hp.length_eq]; exact h.len
    lt := fun x hx => h.lt x (((hp.append_right f).mem_iff).mp hx)
    oend := h.oend
    used := h.used.trans hp.length_eq.symm
    ids := h.ids
    idlt := h.idlt
    kkeys := h.kkeys
    kslots := h.kslots
    slot_mem := fun n hn => hp.mem_iff.mpr (h.slot_mem n hn)
    mem_slot := fun x hx => h.mem_slot x (hp.mem_iff.mp hx)
    kit := by
      intro n hn
      show ((s.nodes.set q.node _).getD n.slot default).keyedIt = n.id
      by_cases e : q.node = n.slot
      · rw [← e, getD_set_self hlt]
        show (s.nodes.getD q.node default).keyedIt = n.id
        rw [e]; exact h.kit n hn
      · rw [getD_set_ne e]; exact h.kit n hn
    qids := by
      show (fileQ _ _).Pairwise _
      apply pairwise_fileQ (g := (·.id)) (h.qids.filter _)
      intro y hy
      exact Nat.ne_of_gt (h.qidlt y (List.mem_filter.mp hy).1)
    qidlt := by
      intro m hm
      show m.id < s.nextQ + 1
      rcases mem_fileQ.mp hm with hm | hm
      · subst hm; exact Nat.lt_succ_self _
      · exact Nat.lt_succ_of_lt (h.qidlt m (List.mem_filter.mp hm).1)
    qnodes := by
      show (fileQ _ _).Pairwise _
      apply pairwise_fileQ (g := (·.node)) (h.qnodes.filter _)
      intro y hy
      obtain ⟨hy1, hy2⟩ := List.mem_filter.mp hy
      exact fun e => (qid_ne_iff h hq hy1).mp hy2 e.symm
    node_mem := by
      intro m hm
      rcases mem_fileQ.mp hm with hm | hm
      · subst hm; exact hp.mem_iff.mpr hnd
      · exact hp.mem_iff.mpr (h.node_mem m (List.mem_filter.mp hm).1)
    mem_node := by
      intro x hx
      obtain ⟨m, hm, rfl⟩ := h.mem_node x (hp.mem_iff.mp hx)
      by_cases e : m.node = q.node
      · exact ⟨_, mem_fileQ.mpr (Or.inl rfl), e.symm⟩
      · exact ⟨m, mem_fileQ.mpr (Or.inr (List.mem_filter.mpr ⟨hm, (qid_ne_iff h hq hm).mpr e⟩)), rfl⟩
    qit := by
      intro m hm
      show ((s.nodes.set q.node _).getD m.node default).lfuIt = m.id
      rcases mem_fileQ.mp hm with hm | hm
      · subst hm
        rw [getD_set_self hlt]
      · obtain ⟨hm1, hm2⟩ := List.mem_filter.mp hm
        have e : q.node ≠ m.node := fun e => (qid_ne_iff h hq hm1).mp hm2 e.symm
        rw [getD_set_ne e]; exact h.qit m hm1 }

/-- overwriting the value of a node keeps the invariant -/
theorem Good.setVal (h : Good cap s u f) (i : Nat) (v : Val) :
    Good cap { s with nodes := s.nodes.set i { s.nodes.getD i default with val := v } } u f := by
  have key : ∀ x, ((s.nodes.set i { s.nodes.getD i default with val := v }).getD x default).keyedIt
        = (s.nodes.getD x default).keyedIt ∧
      ((s.nodes.set i { s.nodes.getD i default with val := v }).getD x default).lfuIt
        = (s.nodes.getD x default).lfuIt := by
    intro x
    by_cases e : i = x
    · subst e
      by_cases hi : i < s.nodes.length
      · rw [getD_set_self hi]; exact ⟨rfl, rfl⟩
      · rw [List.set_eq_of_length_le (Nat.le_of_not_lt hi)]; exact ⟨rfl, rfl⟩
    · rw [getD_set_ne e]; exact ⟨rfl, rfl⟩
  exact {
    ub := h.ub
    cpos := h.cpos
    nlen := by simp [h.nlen]
    list := h.list
    nodup := h.nodup
    len := h.len
    lt := h.lt
    oend := h.oend
    used := h.used
    ids := h.ids
    idlt := h.idlt
    kkeys := h.kkeys
    kslots := h.kslots
    slot_mem := h.slot_mem
    mem_slot := h.mem_slot
    kit := fun n hn => (key n.slot).1.trans (h.kit n hn)
    qids := h.qids
    qidlt := h.qidlt
    qnodes := h.qnodes
    node_mem := h.node_mem
    mem_node := h.mem_node
    qit := fun q hq => (key q.node).2.trans (h.qit q hq) }

/-- re-filing after the value was overwritten -/
theorem reState_setVal (s : CState) (nd qid c : Nat) (ord : List Nat) (v v' : Val) (st : Time) :
    Cnt.reState { s with nodes := s.nodes.set nd { s.nodes.getD nd default with val := v' } } nd qid c ord v st
      = Cnt.reState s nd qid c ord v st := by
  by_cases hi : nd < s.nodes.length
  · simp only [Cnt.reState, getD_set_self hi, List.set_set]
  · simp only [Cnt.reState, List.set_eq_of_length_le (Nat.le_of_not_lt hi)]

end


/-! ## `do_access` -/

/-- moving an in-use node to the young end of the in-use prefix (the `if nd ≠ last then splice …` idiom) -/
theorem move_last {u f : List Nat} (hn : (u ++ f).Nodup) {i last : Nat} (hi : i ∈ u)
    (hlast : u.getLast? = some last) :
    (if i ≠ last then LList.splice (u ++ f) f.head? i else u ++ f)
      = u.filter (fun x => !(x == i)) ++ i :: f := by
  have hnu : u.Nodup := (List.nodup_append.mp hn).1
  by_cases e : i = last
  · subst e
    simp only [ne_eq, not_true_eq_false, if_false]
    conv => lhs; rw [LList.eq_filter_snoc_of_getLast? hnu hlast]
    simp
  · simp only [ne_eq, e, not_false_eq_true, if_true]
    exact LList.splice_partition hn hi

theorem getLast_of_mem {u : List Nat} {i : Nat} (hi : i ∈ u) : ∃ last, u.getLast? = some last := by
  cases hg : u.getLast? with
  | none => rw [List.getLast?_eq_none_iff] at hg; subst hg; cases hi
  | some x => exact ⟨x, rfl⟩

section
variable {cap : Nat} {s : CState} {u f : List Nat}

theorem doAccess_lfu (h : Good cap s u f) (hda : s.da = false) {q : QNode} (hq : q ∈ s.lfuq) (now : Time) :
    doAccess s q.node now = reState s q.node q.id (q.cnt + 1) (u ++ f)
      (s.nodes.getD q.node default).val (s.nodes.getD q.node default).stamp := by
  unfold doAccess
  rw [h.cntOf hq]
  simp only [refile_eq (h.qit q hq) (any_qid hq)]
  have hub : (reState s q.node q.id (q.cnt + 1) s.order (s.nodes.getD q.node default).val
      (s.nodes.getD q.node default).stamp).ub = false := h.ub
  simp only [hub, hda, Bool.false_eq_true, if_false, Bool.not_false, if_true]
  rw [h.list]

theorem doAccess_lfuda (h : Good cap s u f) (hda : s.da = true) {q : QNode} (hq : q ∈ s.lfuq) (now : Time) :
    doAccess s q.node now = reState s q.node q.id (q.cnt + 1)
      (u.filter (fun x => !(x == q.node)) ++ q.node :: f) (s.nodes.getD q.node default).val now := by
  have hnd : q.node ∈ u := h.node_mem q hq
  have hlt : q.node < s.nodes.length := h.lt_u hnd
  obtain ⟨last, hlast⟩ := getLast_of_mem hnd
  unfold doAccess
  rw [h.cntOf hq]
  simp only [refile_eq (h.qit q hq) (any_qid hq)]
  have hub : (reState s q.node q.id (q.cnt + 1) s.order (s.nodes.getD q.node default).val
      (s.nodes.getD q.node default).stamp).ub = false := h.ub
  simp only [hub, hda, Bool.false_eq_true, if_false, Bool.not_true]
  have hprev : LList.prev s.order s.openEnd = some last := by
    rw [h.list, h.oend, LList.prev_partition h.nodup, hlast]
  have hord : (if q.node ≠ last then LList.splice s.order s.openEnd q.node else s.order)
      = u.filter (fun x => !(x == q.node)) ++ q.node :: f := by
    rw [h.list, h.oend]; exact move_last h.nodup hnd hlast
  simp only [Cnt.reState, hprev, hord, getD_set_self hlt, List.set_set, h.ub]

end

/-! ## `do_dynamic_age`: one turn of the loop -/

/-- the node the next aged node is spliced in front of -/
def tgtOf : Option (Option Nat) → Option Nat → Option Nat
  | none, e => e
  | some x, _ => x

section
variable {cap : Nat} {s : CState} {f : List Nat}

/-- the walk stops at a node that is not idle -/
theorem ageLoop_stop_fresh {x : Nat} {w : List Nat} (h : Good cap s (x :: w) f) (now : Time)
    (hnot : ¬ (s.nodes.getD x default).stamp + s.tick < now) (fuel : Nat) (daLast : Option (Option Nat))
    (n : Nat) : ageLoop now fuel s daLast n = (s, n) := by
  cases fuel with
  | zero => rfl
  | succ fuel =>
    have hhead : s.order.head? = some x := by rw [h.list]; rfl
    cases daLast <;>
    · rw [ageLoop]
      simp only [h.ub, Bool.false_eq_true, if_false, hhead, hnot]
      split <;> rfl

/-- the walk stops when only aged nodes (stamp `now`) are left in the in-use prefix -/
theorem ageLoop_stop_done {p : List Nat} (h : Good cap s p f) (now : Time)
    (hst : ∀ y ∈ p, (s.nodes.getD y default).stamp = now) (fuel : Nat) (daLast : Option (Option Nat))
    (n : Nat) : ageLoop now fuel s daLast n = (s, n) := by
  cases p with
  | nil =>
    cases fuel with
    | zero => rfl
    | succ fuel =>
      cases daLast <;>
      · rw [ageLoop]
        simp only [h.ub, Bool.false_eq_true, if_false, h.list, h.oend, List.nil_append]
        cases f with
        | nil => rfl
        | cons a b => simp
  | cons y p' =>
    apply ageLoop_stop_fresh h
    rw [hst y (by simp)]
    exact Nat.not_lt.mpr (Nat.le_add_right _ _)

/-- the walk ages an idle node -/
theorem ageLoop_step {x : Nat} {w p : List Nat} (h : Good cap s (x :: w ++ p) f) {q : QNode}
    (hq : q ∈ s.lfuq) (hqx : q.node = x) (now : Time) {daLast : Option (Option Nat)}
    (htgt : tgtOf daLast s.openEnd = (p ++ f).head?)
    (hidle : (s.nodes.getD x default).stamp + s.tick < now) (fuel n : Nat) :
    ageLoop now (fuel + 1) s daLast n =
      ageLoop now fuel (reState s x q.id (q.cnt * s.num / s.den) ((w ++ x :: p) ++ f)
        (s.nodes.getD x default).val now) (some (some x)) (n + 1) := by
  subst hqx
  have hu : q.node ∈ q.node :: w ++ p := by simp
  have hlt : q.node < s.nodes.length := h.lt_u hu
  have hnd : ((q.node :: w) ++ (p ++ f)).Nodup := by
    have := h.nodup; simpa [List.append_assoc] using this
  have hxw : q.node ∉ w := by
    have := (List.nodup_append.mp hnd).1
    rw [List.nodup_cons] at this; exact this.1
  have hxpf : q.node ∉ p ++ f := fun hm =>
    (List.nodup_append.mp hnd).2.2 q.node (by simp) q.node hm rfl
  have hhead : s.order.head? = some q.node := by rw [h.list]; rfl
  have hne : ¬ some q.node = s.openEnd := by
    rw [h.oend]
    intro e
    exact hxpf (List.mem_append_right _ (List.mem_of_mem_head? e.symm))
  have hnt : some q.node ≠ (p ++ f).head? := by
    intro e
    exact hxpf (List.mem_of_mem_head? e.symm)
  have hsp : LList.splice s.order (p ++ f).head? q.node = (w ++ q.node :: p) ++ f := by
    have e1 : s.order = (q.node :: w) ++ (p ++ f) := by rw [h.list]; simp [List.append_assoc]
    rw [e1, LList.splice_partition hnd (by simp)]
    have : (q.node :: w).filter (fun y => !(y == q.node)) = w := by
      simp only [List.filter_cons, beq_self_eq_true, Bool.not_true, Bool.false_eq_true, if_false]
      exact LList.filter_ne_of_not_mem hxw
    rw [this]; simp [List.append_assoc]
  have hc : ∀ (oe : Option Nat) (b : Bool), cntOf { s with order := (w ++ q.node :: p) ++ f, openEnd := oe, ub := b, nodes := s.nodes.set q.node ⟨(s.nodes.getD q.node default).val, (s.nodes.getD q.node default).keyedIt, (s.nodes.getD q.node default).lfuIt, now⟩ }
        q.node = some q.cnt := by
    intro oe b
    apply cntOf_of
    show s.lfuq.find? (fun y => y.id == ((s.nodes.set q.node _).getD q.node default).lfuIt) = some q
    rw [getD_set_self hlt]
    show s.lfuq.find? (fun y => y.id == (s.nodes.getD q.node default).lfuIt) = some q
    rw [h.qit q hq]; exact find_qid h hq
  have hfin : ageLoop now (fuel + 1) s daLast n =
      ageLoop now fuel (refile { s with order := (w ++ q.node :: p) ++ f
                                        nodes := s.nodes.set q.node { s.nodes.getD q.node default with stamp := now } }
        q.node (q.cnt * s.num / s.den)) (some (some q.node)) (n + 1) := by
    cases daLast with
    | none =>
      simp only [tgtOf] at htgt
      rw [← htgt] at hsp
      rw [ageLoop]
      simp only [h.not_ub, Bool.false_eq_true, if_false, hhead, hne, hidle, if_true, ne_eq,
        not_false_eq_true, hsp, hc]
    | some y =>
      simp only [tgtOf] at htgt
      subst htgt
      rw [ageLoop]
      simp only [h.not_ub, Bool.false_eq_true, if_false, hhead, hne, hidle, if_true, hnt, ne_eq,
        not_false_eq_true, hsp, hc]
  rw [hfin, refile_stamped hlt (h.qit q hq) (any_qid hq)]

end

/-! ## `do_erase` -/

/-- the state after `do_erase` of the in-use list node `nd` (hash node `kid`, multimap node `qid`) -/
def erased (s : CState) (u f : List Nat) (nd kid qid : Nat) : CState :=
  { s with order := u.filter (fun x => !(x == nd)) ++ nd :: f, openEnd := some nd,
           keyed := s.keyed.filter (fun m => !(m.id == kid)),
           lfuq := s.lfuq.filter (fun m => !(m.id == qid)), used := s.used - 1 }

section
variable {cap : Nat} {s : CState} {u f : List Nat}

theorem doErase_eq (h : Good cap s u f) {n : HNode} (hn : n ∈ s.keyed) {q : QNode} (hq : q ∈ s.lfuq)
    (hqn : q.node = n.slot) : doErase s n.slot = erased s u f n.slot n.id q.id := by
  have hu := h.slot_mem n hn
  have hlt : ¬ n.slot ≥ s.nodes.length := Nat.not_le.mpr (h.lt_u hu)
  obtain ⟨last, hlast⟩ := getLast_of_mem hu
  have hprev : LList.prev s.order s.openEnd = some last := by
    rw [h.list, h.oend, LList.prev_partition h.nodup, hlast]
  have hl : (if n.slot ≠ last then LList.splice s.order s.openEnd n.slot else s.order)
      = u.filter (fun x => !(x == n.slot)) ++ n.slot :: f := by
    rw [h.list, h.oend]; exact move_last h.nodup hu hlast
  have hnd : ((u.filter (fun x => !(x == n.slot)) ++ [n.slot]) ++ f).Nodup :=
    ((LList.filter_snoc_perm h.nodup_u hu).append_right f).nodup_iff.mpr h.nodup
  have hprev2 : LList.prev (u.filter (fun x => !(x == n.slot)) ++ n.slot :: f) s.openEnd = some n.slot := by
    have := LList.prev_partition hnd
    rw [h.oend]
    simpa using this
  have hqit : (s.nodes.getD n.slot default).lfuIt = q.id := by rw [← hqn]; exact h.qit q hq
  unfold doErase
  simp only [hlt, if_false, h.in_order hu, Bool.not_true, Bool.false_eq_true, hprev, hl, hprev2,
    h.kit n hn, any_kid hn, hqit, any_qid hq]
  rfl

theorem Good.erase (h : Good cap s u f) {n : HNode} (hn : n ∈ s.keyed) {q : QNode} (hq : q ∈ s.lfuq)
    (hqn : q.node = n.slot) :
    Good cap (erased s u f n.slot n.id q.id) (u.filter (fun x => !(x == n.slot))) (n.slot :: f) := by
  have hu := h.slot_mem n hn
  have hp : (u.filter (fun x => !(x == n.slot)) ++ n.slot :: f).Perm (u ++ f) :=
    List.perm_middle.trans ((LList.cons_filter_perm h.nodup_u hu).append_right f)
  have hlen := LList.length_filter_ne h.nodup_u hu
  exact {
    ub := h.ub
    cpos := h.cpos
    nlen := h.nlen
    list := rfl
    nodup := hp.nodup_iff.mpr h.nodup
    len := by have := h.len; simp only [List.length_cons]; omega
    lt := fun x hx => h.lt x (hp.mem_iff.mp hx)
    oend := rfl
    used := by show s.used - 1 = _; rw [h.used]; omega
    ids := h.ids.filter _
    idlt := fun m hm => h.idlt m (List.mem_filter.mp hm).1
    kkeys := h.kkeys.filter _
    kslots := h.kslots.filter _
    slot_mem := by
      intro m hm
      obtain ⟨hm1, hm2⟩ := List.mem_filter.mp hm
      exact LList.mem_filter_ne.mpr ⟨h.slot_mem m hm1, (kid_ne_iff h hn hm1).mp hm2⟩
    mem_slot := by
      intro x hx
      obtain ⟨hx1, hx2⟩ := LList.mem_filter_ne.mp hx
      obtain ⟨m, hm, rfl⟩ := h.mem_slot x hx1
      exact ⟨m, List.mem_filter.mpr ⟨hm, (kid_ne_iff h hn hm).mpr hx2⟩, rfl⟩
    kit := fun m hm => h.kit m (List.mem_filter.mp hm).1
    qids := h.qids.filter _
    qidlt := fun m hm => h.qidlt m (List.mem_filter.mp hm).1
    qnodes := h.qnodes.filter _
    node_mem := by
      intro m hm
      obtain ⟨hm1, hm2⟩ := List.mem_filter.mp hm
      exact LList.mem_filter_ne.mpr ⟨h.node_mem m hm1, hqn ▸ (qid_ne_iff h hq hm1).mp hm2⟩
    mem_node := by
      intro x hx
      obtain ⟨hx1, hx2⟩ := LList.mem_filter_ne.mp hx
      obtain ⟨m, hm, rfl⟩ := h.mem_node x hx1
      exact ⟨m, List.mem_filter.mpr ⟨hm, (qid_ne_iff h hq hm).mpr (hqn ▸ hx2)⟩, rfl⟩
    qit := fun m hm => h.qit m (List.mem_filter.mp hm).1 }

end

/-! ## `do_insert`: claiming the first free node -/

def pushed (s : CState) (now : Time) (k : Key) (v : Val) (nd : Nat) : CState :=
  { s with keyed := s.keyed ++ [⟨s.nextNode, k, nd⟩], nextNode := s.nextNode + 1,
           lfuq := fileQ s.lfuq ⟨s.nextQ, 1, nd⟩, nextQ := s.nextQ + 1,
           nodes := s.nodes.set nd ⟨v, s.nextNode, s.nextQ, now⟩,
           openEnd := LList.next s.order nd, used := s.used + 1 }

section
variable {cap : Nat} {s : CState} {u f : List Nat}

theorem doInsert_eq {s s1 : CState} {u1 r : List Nat} {nd : Nat} (h1 : Good cap s1 u1 (nd :: r)) (now : Time)
    (hs1 : (if s.used ≥ s.order.length then doPrune s now else s) = s1) (k : Key) (v : Val) :
    doInsert s now k v = pushed s1 now k v nd := by
  have hlt : ¬ nd ≥ s1.nodes.length := by
    rw [h1.nlen]; exact Nat.not_le.mpr (h1.lt nd (by simp))
  have hend : s1.openEnd = some nd := h1.oend
  unfold doInsert
  simp only [hs1]
  rw [if_neg h1.not_ub]
  simp only [hend, hlt, if_false]
  rfl

theorem Good.push {nd : Nat} {r : List Nat} (h : Good cap s u (nd :: r)) {k : Key}
    (hk : ∀ n ∈ s.keyed, n.key ≠ k) (now : Time) (v : Val) :
    Good cap (pushed s now k v nd) (u ++ [nd]) r := by
  have hidx : nd ∉ u := LList.head_not_mem h.nodup rfl
  have hlt : nd < s.nodes.length := by rw [h.nlen]; exact h.lt nd (by simp)
  have hassoc : (u ++ [nd]) ++ r = u ++ nd :: r := by simp
  exact {
    ub := h.ub
    cpos := h.cpos
    nlen := by simp [pushed, h.nlen]
    list := by rw [hassoc]; exact h.list
    nodup := by rw [hassoc]; exact h.nodup
    len := by have := h.len; simp only [List.length_cons, List.length_append, List.length_nil] at *; omega
    lt := by rw [hassoc]; exact h.lt
    oend := by
      show LList.next s.order nd = r.head?
      rw [h.list]; exact LList.next_partition h.nodup rfl
    used := by show s.used + 1 = _; rw [h.used]; simp
    ids := by
      show (s.keyed ++ [_]).Pairwise _
      rw [List.pairwise_append]
      refine ⟨h.ids, List.pairwise_singleton _ _, ?_⟩
      intro a ha b hb
      simp only [List.mem_singleton] at hb; subst hb
      exact Nat.ne_of_lt (h.idlt a ha)
    idlt := by
      intro m hm
      show m.id < s.nextNode + 1
      rcases List.mem_append.mp hm with hm | hm
      · exact Nat.lt_succ_of_lt (h.idlt m hm)
      · simp only [List.mem_singleton] at hm; subst hm; exact Nat.lt_succ_self _
    kkeys := by
      show (s.keyed ++ [_]).Pairwise _
      rw [List.pairwise_append]
      refine ⟨h.kkeys, List.pairwise_singleton _ _, ?_⟩
      intro a ha b hb
      simp only [List.mem_singleton] at hb; subst hb
      exact hk a ha
    kslots := by
      show (s.keyed ++ [_]).Pairwise _
      rw [List.pairwise_append]
      refine ⟨h.kslots, List.pairwise_singleton _ _, ?_⟩
      intro a ha b hb
      simp only [List.mem_singleton] at hb; subst hb
      intro e
      have e' : a.slot = nd := e
      exact hidx (e' ▸ h.slot_mem a ha)
    slot_mem := by
      intro m hm
      rcases List.mem_append.mp hm with hm | hm
      · exact List.mem_append_left _ (h.slot_mem m hm)
      · simp only [List.mem_singleton] at hm; subst hm; simp
    mem_slot := by
      intro x hx
      rcases List.mem_append.mp hx with hx | hx
      · obtain ⟨m, hm, e⟩ := h.mem_slot x hx
        exact ⟨m, List.mem_append_left _ hm, e⟩
      · simp only [List.mem_singleton] at hx; subst hx
        exact ⟨_, List.mem_append_right _ (List.mem_singleton.mpr rfl), rfl⟩
    kit := by
      intro m hm
      show ((s.nodes.set nd _).getD m.slot default).keyedIt = _
      rcases List.mem_append.mp hm with hm | hm
      · have hne : nd ≠ m.slot := fun e => hidx (e ▸ h.slot_mem m hm)
        rw [getD_set_ne hne]
        exact h.kit m hm
      · simp only [List.mem_singleton] at hm; subst hm
        rw [getD_set_self hlt]
    qids := by
      show (fileQ _ _).Pairwise _
      apply pairwise_fileQ (g := (·.id)) h.qids
      intro y hy
      exact Nat.ne_of_gt (h.qidlt y hy)
    qidlt := by
      intro m hm
      show m.id < s.nextQ + 1
      rcases mem_fileQ.mp hm with hm | hm
      · subst hm; exact Nat.lt_succ_self _
      · exact Nat.lt_succ_of_lt (h.qidlt m hm)
    qnodes := by
      show (fileQ _ _).Pairwise _
      apply pairwise_fileQ (g := (·.node)) h.qnodes
      intro y hy e
      have e' : nd = y.node := e
      exact hidx (e' ▸ h.node_mem y hy)
    node_mem := by
      intro m hm
      rcases mem_fileQ.mp hm with hm | hm
      · subst hm; simp
      · exact List.mem_append_left _ (h.node_mem m hm)
    mem_node := by
      intro x hx
      rcases List.mem_append.mp hx with hx | hx
      · obtain ⟨m, hm, e⟩ := h.mem_node x hx
        exact ⟨m, mem_fileQ.mpr (Or.inr hm), e⟩
      · simp only [List.mem_singleton] at hx; subst hx
        exact ⟨_, mem_fileQ.mpr (Or.inl rfl), rfl⟩
    qit := by
      intro m hm
      show ((s.nodes.set nd _).getD m.node default).lfuIt = _
      rcases mem_fileQ.mp hm with hm | hm
      · subst hm
        rw [getD_set_self hlt]
      · have hne : nd ≠ m.node := fun e => hidx (e ▸ h.node_mem m hm)
        rw [getD_set_ne hne]
        exact h.qit m hm }

theorem good_init (da : Bool) {cap : Nat} (hcap : 0 < cap) (tickMs num den : Nat) :
    Good cap (init da cap tickMs num den) [] (List.range cap) where
  ub := rfl
  cpos := hcap
  nlen := by simp [init]
  list := rfl
  nodup := by simpa using List.nodup_range
  len := by simp
  lt := by intro x hx; simpa using hx
  oend := rfl
  used := rfl
  ids := List.Pairwise.nil
  idlt := by intro n hn; cases hn
  kkeys := List.Pairwise.nil
  kslots := List.Pairwise.nil
  slot_mem := by intro n hn; cases hn
  mem_slot := by intro x hx; cases hx
  kit := by intro n hn; cases hn
  qids := List.Pairwise.nil
  qidlt := by intro n hn; cases hn
  qnodes := List.Pairwise.nil
  node_mem := by intro n hn; cases hn
  mem_node := by intro x hx; cases hx
  qit := by intro n hn; cases hn

end

end Verif.L2.Cnt
