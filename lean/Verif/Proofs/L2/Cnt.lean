import Verif.Concrete.Node
import Verif.Model.Lfu
import Verif.Proofs.L2.SlotLemmas
import Verif.Proofs.L2.CntLemmas
import Verif.Proofs.Refine.Lfu
import Verif.Proofs.Refine.Lfuda
/-!
# L2 `lfu_cache` / `lfuda_cache`: no undefined behaviour on any history, refinement of the L1 models
-/
namespace Verif.L2.Cnt
open Verif

def keyOf (s : CState) (nd : Nat) : Key :=
  ((s.keyed.find? (fun n => n.slot == nd)).map (·.key)).getD 0

/-- the in-use prefix of the node list: the nodes before `m_open_list_end` -/
def usedPrefix (s : CState) : List Nat :=
  match s.openEnd with
  | none => s.order
  | some e => s.order.takeWhile (fun x => !(x == e))

/-- entries in multimap order -/
def entsOf (s : CState) : List Entry :=
  s.lfuq.map (fun q => { key := keyOf s q.node, val := (s.nodes.getD q.node default).val, cnt := q.cnt,
                         stamp := if s.da then (s.nodes.getD q.node default).stamp else 0 })

def absLfu (s : CState) : LfuState := { cap := s.order.length, ents := entsOf s }

def absLfuda (s : CState) : LfudaState :=
  { cap := s.order.length, tick := s.tick, num := s.num, den := s.den, ents := entsOf s,
    age := (usedPrefix s).map (keyOf s) }

/-! ## the abstraction under the invariant -/

/-- the entry a multimap node stands for -/
def ent (s : CState) (q : QNode) : Entry :=
  { key := keyOf s q.node, val := (s.nodes.getD q.node default).val, cnt := q.cnt,
    stamp := if s.da then (s.nodes.getD q.node default).stamp else 0 }

theorem entsOf_eq (s : CState) : entsOf s = s.lfuq.map (ent s) := rfl

theorem ent_congr {s s' : CState} {q : QNode} (hk : keyOf s' q.node = keyOf s q.node) (hd : s'.da = s.da)
    (hn : s'.nodes.getD q.node default = s.nodes.getD q.node default) : ent s' q = ent s q := by
  simp only [ent, hk, hd, hn]

theorem findNode_some {s : CState} {k : Key} {n : HNode} (hf : findNode s k = some n) :
    n ∈ s.keyed ∧ n.key = k := by
  unfold findNode at hf
  exact ⟨List.mem_of_find?_eq_some hf, by simpa using List.find?_some hf⟩

theorem findNode_none {s : CState} {k : Key} (hf : findNode s k = none) : ∀ n ∈ s.keyed, n.key ≠ k := by
  unfold findNode at hf
  intro n hn
  simpa using List.find?_eq_none.mp hf n hn

section
variable {cap : Nat} {s : CState} {u f : List Nat}

theorem usedPrefix_eq (h : Good cap s u f) : usedPrefix s = u := by
  unfold usedPrefix
  rw [h.oend, h.list]
  cases hf : f.head? with
  | none =>
    cases f with
    | nil => simp
    | cons a b => simp at hf
  | some p => exact LList.takeWhile_partition h.nodup hf

theorem absLfu_eq (h : Good cap s u f) : absLfu s = { cap := cap, ents := entsOf s } := by
  unfold absLfu; rw [h.order_length]

theorem absLfuda_eq (h : Good cap s u f) :
    absLfuda s = { cap := cap, tick := s.tick, num := s.num, den := s.den, ents := entsOf s,
                   age := u.map (keyOf s) } := by
  unfold absLfuda; rw [h.order_length, usedPrefix_eq h]

theorem keyOf_node (h : Good cap s u f) {n : HNode} (hn : n ∈ s.keyed) : keyOf s n.slot = n.key := by
  simp [keyOf, find_slot h hn]

theorem keyOf_inj (h : Good cap s u f) {x y : Nat} (hx : x ∈ u) (hy : y ∈ u)
    (e : keyOf s x = keyOf s y) : x = y := by
  obtain ⟨n, hn, rfl⟩ := h.mem_slot x hx
  obtain ⟨m, hm, rfl⟩ := h.mem_slot y hy
  rw [keyOf_node h hn, keyOf_node h hm] at e
  rw [pairwise_inj h.kkeys hn hm e]

theorem key_beq (h : Good cap s u f) {x y : Nat} (hx : x ∈ u) (hy : y ∈ u) :
    decide (keyOf s x = keyOf s y) = (x == y) := by
  by_cases e : x = y
  · subst e; simp
  · have e' : ¬ keyOf s x = keyOf s y := fun hh => e (keyOf_inj h hx hy hh)
    rw [decide_eq_false e', beq_false_of_ne e]

theorem getE_ents (h : Good cap s u f) {q : QNode} (hq : q ∈ s.lfuq) :
    getE (entsOf s) (keyOf s q.node) = some (ent s q) := by
  unfold getE
  rw [entsOf_eq, List.find?_map]
  have : s.lfuq.find? ((fun e : Entry => decide (e.key = keyOf s q.node)) ∘ ent s)
      = s.lfuq.find? (fun x => x.node == q.node) :=
    find?_congr' (fun x hx => key_beq h (h.node_mem x hx) (h.node_mem q hq))
  rw [this, find_qnode h hq]
  rfl

theorem getE_ents_none (h : Good cap s u f) {k : Key} (hk : ∀ n ∈ s.keyed, n.key ≠ k) :
    getE (entsOf s) k = none := by
  rw [getE_eq_none_iff]
  intro hm
  simp only [keys, entsOf_eq, List.map_map, List.mem_map, Function.comp] at hm
  obtain ⟨q, hq, hk'⟩ := hm
  obtain ⟨n, hn, e⟩ := h.mem_slot q.node (h.node_mem q hq)
  have : (ent s q).key = n.key := by
    show keyOf s q.node = n.key
    rw [← e]; exact keyOf_node h hn
  exact hk n hn (this.symm.trans hk')

theorem delE_ents (h : Good cap s u f) {q : QNode} (hq : q ∈ s.lfuq) :
    delE (entsOf s) (keyOf s q.node) = (s.lfuq.filter (fun x => !(x.id == q.id))).map (ent s) := by
  rw [filter_qid h hq]
  unfold delE
  rw [entsOf_eq, List.filter_map]
  congr 1
  apply List.filter_congr
  intro x hx
  show (!decide (keyOf s x.node = keyOf s q.node)) = !(x.node == q.node)
  rw [key_beq h (h.node_mem x hx) (h.node_mem q hq)]

/-- the age list: removing a key is removing its node -/
theorem filter_keys (h : Good cap s u f) {l : List Nat} (hl : ∀ x ∈ l, x ∈ u) {nd : Nat} (hnd : nd ∈ u) :
    (l.map (keyOf s)).filter (fun k => !decide (k = keyOf s nd))
      = (l.filter (fun x => !(x == nd))).map (keyOf s) := by
  rw [List.filter_map]
  congr 1
  apply List.filter_congr
  intro x hx
  show (!decide (keyOf s x = keyOf s nd)) = !(x == nd)
  rw [key_beq h (hl x hx) hnd]

/-! ### re-filing -/

theorem entsOf_reState (h : Good cap s u f) {q : QNode} (hq : q ∈ s.lfuq) (c : Nat) (ord : List Nat)
    (v : Val) (st : Time) :
    entsOf (reState s q.node q.id c ord v st) =
      fileCnt (delE (entsOf s) (keyOf s q.node))
        { key := keyOf s q.node, val := v, cnt := c, stamp := if s.da then st else 0 } := by
  have hlt : q.node < s.nodes.length := h.lt_u (h.node_mem q hq)
  rw [entsOf_eq]
  show (fileQ _ _).map _ = _
  rw [map_fileQ (fun _ => rfl), delE_ents h hq]
  congr 1
  · apply List.map_congr_left
    intro x hx
    obtain ⟨hx1, hx2⟩ := List.mem_filter.mp hx
    have e : q.node ≠ x.node := fun e => (qid_ne_iff h hq hx1).mp hx2 e.symm
    refine ent_congr (s := s) (s' := reState s q.node q.id c ord v st) rfl rfl ?_
    show (s.nodes.set q.node _).getD x.node default = _
    rw [getD_set_ne e]
  · show Entry.mk _ ((s.nodes.set q.node _).getD q.node default).val _ _
      (if s.da then ((s.nodes.set q.node _).getD q.node default).stamp else 0) _ = _
    rw [getD_set_self hlt]
    rfl

theorem reState_read (h : Good cap s u f) {q : QNode} (hq : q ∈ s.lfuq) {u' : List Nat} (hp : u'.Perm u)
    (c : Nat) (v : Val) (st : Time) :
    cntOf (reState s q.node q.id c (u' ++ f) v st) q.node = some c ∧
      ((reState s q.node q.id c (u' ++ f) v st).nodes.getD q.node default).val = v := by
  have hlt : q.node < s.nodes.length := h.lt_u (h.node_mem q hq)
  have hg := h.reState hq hp c v st
  have hm : (⟨s.nextQ, c, q.node⟩ : QNode) ∈ (reState s q.node q.id c (u' ++ f) v st).lfuq :=
    mem_fileQ.mpr (Or.inl rfl)
  refine ⟨hg.cntOf hm, ?_⟩
  show ((s.nodes.set q.node _).getD q.node default).val = v
  rw [getD_set_self hlt]

/-! ### erasing -/

theorem keyOf_erased (h : Good cap s u f) {n : HNode} (hn : n ∈ s.keyed) {q : QNode} (hq : q ∈ s.lfuq)
    (hqn : q.node = n.slot) {x : Nat} (hx : x ∈ u) (hne : x ≠ n.slot) :
    keyOf (erased s u f n.slot n.id q.id) x = keyOf s x := by
  obtain ⟨m, hm, rfl⟩ := h.mem_slot x hx
  have hm' : m ∈ (erased s u f n.slot n.id q.id).keyed :=
    List.mem_filter.mpr ⟨hm, (kid_ne_iff h hn hm).mpr hne⟩
  rw [keyOf_node (h.erase hn hq hqn) hm', keyOf_node h hm]

theorem entsOf_erased' (h : Good cap s u f) {n : HNode} (hn : n ∈ s.keyed) {q : QNode} (hq : q ∈ s.lfuq)
    (hqn : q.node = n.slot) :
    entsOf (erased s u f n.slot n.id q.id) = (s.lfuq.filter (fun x => !(x.id == q.id))).map (ent s) := by
  rw [entsOf_eq]
  show (s.lfuq.filter _).map _ = _
  apply List.map_congr_left
  intro x hx
  obtain ⟨hx1, hx2⟩ := List.mem_filter.mp hx
  have e : x.node ≠ n.slot := hqn ▸ (qid_ne_iff h hq hx1).mp hx2
  exact ent_congr (keyOf_erased h hn hq hqn (h.node_mem x hx1) e) rfl rfl

theorem entsOf_erased (h : Good cap s u f) {n : HNode} (hn : n ∈ s.keyed) {q : QNode} (hq : q ∈ s.lfuq)
    (hqn : q.node = n.slot) :
    entsOf (erased s u f n.slot n.id q.id) = delE (entsOf s) n.key := by
  rw [entsOf_erased' h hn hq hqn, ← keyOf_node h hn, ← hqn, delE_ents h hq]

/-! ### inserting -/

theorem keyOf_pushed_old {nd : Nat} {r : List Nat} (h : Good cap s u (nd :: r)) {k : Key}
    (hk : ∀ n ∈ s.keyed, n.key ≠ k) (now : Time) (v : Val) {x : Nat} (hx : x ∈ u) :
    keyOf (pushed s now k v nd) x = keyOf s x := by
  obtain ⟨m, hm, rfl⟩ := h.mem_slot x hx
  have hm' : m ∈ (pushed s now k v nd).keyed := List.mem_append_left _ hm
  rw [keyOf_node (h.push hk now v) hm', keyOf_node h hm]

theorem keyOf_pushed_new {nd : Nat} {r : List Nat} (h : Good cap s u (nd :: r)) {k : Key}
    (hk : ∀ n ∈ s.keyed, n.key ≠ k) (now : Time) (v : Val) :
    keyOf (pushed s now k v nd) nd = k := by
  have hm' : (⟨s.nextNode, k, nd⟩ : HNode) ∈ (pushed s now k v nd).keyed :=
    List.mem_append_right _ (List.mem_singleton.mpr rfl)
  exact keyOf_node (h.push hk now v) hm'

theorem entsOf_pushed {nd : Nat} {r : List Nat} (h : Good cap s u (nd :: r)) {k : Key}
    (hk : ∀ n ∈ s.keyed, n.key ≠ k) (now : Time) (v : Val) :
    entsOf (pushed s now k v nd) =
      fileCnt (entsOf s) { key := k, val := v, cnt := 1, stamp := if s.da then now else 0 } := by
  have hidx : nd ∉ u := LList.head_not_mem h.nodup rfl
  have hlt : nd < s.nodes.length := by rw [h.nlen]; exact h.lt nd (by simp)
  rw [entsOf_eq]
  show (fileQ _ _).map _ = _
  rw [map_fileQ (fun _ => rfl), entsOf_eq]
  congr 1
  · apply List.map_congr_left
    intro x hx
    have hxu := h.node_mem x hx
    have e : nd ≠ x.node := fun e => hidx (e ▸ hxu)
    apply ent_congr (keyOf_pushed_old h hk now v hxu) rfl
    show (s.nodes.set nd _).getD x.node default = _
    rw [getD_set_ne e]
  · show Entry.mk (keyOf (pushed s now k v nd) nd) ((s.nodes.set nd _).getD nd default).val _ _
      (if s.da then ((s.nodes.set nd _).getD nd default).stamp else 0) _ = _
    rw [getD_set_self hlt, keyOf_pushed_new h hk now v]

end

/-! ## facts shared by the two simulations -/

section
variable {cap : Nat} {s : CState} {u f : List Nat}

theorem length_entsOf (h : Good cap s u f) : (entsOf s).length = u.length := by
  rw [entsOf_eq, List.length_map, h.qlen]

/-- a key the hash index knows: its hash node, list node, multimap node and entry -/
theorem resident (h : Good cap s u f) {k : Key} {n : HNode} (hf : findNode s k = some n) :
    n ∈ s.keyed ∧ ∃ q ∈ s.lfuq, q.node = n.slot ∧ keyOf s q.node = k ∧
      getE (entsOf s) k = some (ent s q) := by
  obtain ⟨hn, hk⟩ := findNode_some hf
  obtain ⟨q, hq, hqn⟩ := h.mem_node n.slot (h.slot_mem n hn)
  have hkey : keyOf s q.node = k := by rw [hqn, keyOf_node h hn, hk]
  exact ⟨hn, q, hq, hqn, hkey, hkey ▸ getE_ents h hq⟩

theorem absent (h : Good cap s u f) {k : Key} (hf : findNode s k = none) :
    getE (entsOf s) k = none := getE_ents_none h (findNode_none hf)

/-- evicting the head of the multimap -/
theorem evict_head (h : Good cap s u f) {q : QNode} {rest : List QNode} (hl : s.lfuq = q :: rest) :
    ∃ n ∈ s.keyed, q ∈ s.lfuq ∧ q.node = n.slot ∧ keyOf s q.node = n.key ∧
      doErase s q.node = erased s u f n.slot n.id q.id ∧
      entsOf (erased s u f n.slot n.id q.id) = (entsOf s).tail := by
  have hq : q ∈ s.lfuq := by rw [hl]; simp
  obtain ⟨n, hn, hnq⟩ := h.mem_slot q.node (h.node_mem q hq)
  refine ⟨n, hn, hq, hnq.symm, by rw [← hnq, keyOf_node h hn], by rw [← hnq]; exact doErase_eq h hn hq hnq.symm, ?_⟩
  rw [entsOf_erased' h hn hq hnq.symm, entsOf_eq, hl]
  have hids := h.qids
  rw [hl, List.pairwise_cons] at hids
  have : (q :: rest).filter (fun x => !(x.id == q.id)) = rest := by
    simp only [List.filter_cons, beq_self_eq_true, Bool.not_true, Bool.false_eq_true, if_false]
    rw [List.filter_eq_self]
    intro y hy
    have : y.id ≠ q.id := fun e => hids.1 y hy e.symm
    simp [this]
  rw [this]
  rfl

theorem full_iff (h : Good cap s u f) : s.used ≥ s.order.length ↔ u.length ≥ cap := by
  rw [h.used, h.order_length]

theorem free_nil (h : Good cap s u f) (hfull : u.length ≥ cap) : f = [] := by
  have := h.len
  cases f with
  | nil => rfl
  | cons a b => simp at this; omega

theorem free_cons (h : Good cap s u f) (hfull : ¬ u.length ≥ cap) : ∃ nd r, f = nd :: r := by
  have := h.len
  cases f with
  | nil => simp at this; omega
  | cons a b => exact ⟨a, b, rfl⟩

theorem lfuq_cons (h : Good cap s u f) (hpos : 0 < u.length) : ∃ q rest, s.lfuq = q :: rest := by
  have := h.qlen
  cases hl : s.lfuq with
  | nil => rw [hl] at this; simp at this; omega
  | cons q rest => exact ⟨q, rest, rfl⟩

end

/-! ## lfu: one-step simulation -/

local macro "triv" : tactic => `(tactic| first | rfl | trivial)

section
variable {cap : Nat} {s : CState} {u f : List Nat}

theorem doInsert_lfu (h : Good cap s u f) (hda : s.da = false) {k : Key} (hk : ∀ n ∈ s.keyed, n.key ≠ k)
    (now : Time) (v : Val) :
    ∃ u' f', Good cap (doInsert s now k v) u' f' ∧ (doInsert s now k v).da = false ∧
      entsOf (doInsert s now k v) =
        fileCnt (if (entsOf s).length ≥ cap then (entsOf s).tail else entsOf s)
          { key := k, val := v, cnt := 1 } := by
  rw [length_entsOf h]
  by_cases hfull : u.length ≥ cap
  · have hf := free_nil h hfull
    subst hf
    have hpos : 0 < u.length := Nat.lt_of_lt_of_le h.cpos hfull
    obtain ⟨q, rest, hl⟩ := lfuq_cons h hpos
    obtain ⟨n, hn, hq, hqn, _, her, hents⟩ := evict_head h hl
    have hpr : doPrune s now = erased s u [] n.slot n.id q.id := by
      unfold doPrune
      have hu : s.used > 0 := by rw [h.used]; exact hpos
      simp only [hu, if_true, hda, Bool.false_eq_true, if_false, h.not_ub, hl]
      exact her
    have h1 := h.erase hn hq hqn
    have hs1 : (if s.used ≥ s.order.length then doPrune s now else s) = erased s u [] n.slot n.id q.id := by
      rw [if_pos ((full_iff h).mpr hfull), hpr]
    have hk1 : ∀ m ∈ (erased s u [] n.slot n.id q.id).keyed, m.key ≠ k :=
      fun m hm => hk m (List.mem_filter.mp hm).1
    rw [doInsert_eq h1 now hs1 k v]
    refine ⟨_, _, h1.push hk1 now v, hda, ?_⟩
    rw [entsOf_pushed h1 hk1 now v, hents, if_pos hfull]
    show fileCnt _ { key := k, val := v, cnt := 1, stamp := if s.da then now else 0 } = _
    rw [hda]; rfl
  · obtain ⟨nd, r, rfl⟩ := free_cons h hfull
    have hs1 : (if s.used ≥ s.order.length then doPrune s now else s) = s := by
      rw [if_neg (fun hh => hfull ((full_iff h).mp hh))]
    rw [doInsert_eq h now hs1 k v]
    refine ⟨_, _, h.push hk now v, hda, ?_⟩
    rw [entsOf_pushed h hk now v, if_neg hfull, hda]; rfl

theorem lfu_insert1 (h : Good cap s u f) (hda : s.da = false) (now : Time) (k : Key) (v : Val) (a : Allow) :
    (insert1 s now k v a).2 = (Lfu.insert1 (absLfu s) k v a).2 ∧
    absLfu (insert1 s now k v a).1 = (Lfu.insert1 (absLfu s) k v a).1 ∧
    (insert1 s now k v a).1.da = false ∧ ∃ u' f', Good cap (insert1 s now k v a).1 u' f' := by
  rw [absLfu_eq h]
  unfold insert1 Lfu.insert1
  rw [if_neg h.not_ub]
  cases hf : findNode s k with
  | none =>
    simp only [absent h hf]
    by_cases ha : a.ins = true
    · simp only [ha, if_true]
      obtain ⟨u', f', hg, hda', he⟩ := doInsert_lfu h hda (findNode_none hf) now v
      exact ⟨by triv, by rw [absLfu_eq hg, he], hda', u', f', hg⟩
    · simp only [ha, Bool.false_eq_true, if_false]
      exact ⟨by triv, absLfu_eq h, hda, u, f, h⟩
  | some n =>
    obtain ⟨hn, q, hq, hqn, hkey, hget⟩ := resident h hf
    simp only [hget]
    by_cases ha : a.upd = true
    · have hlt : q.node < s.nodes.length := h.lt_u (h.node_mem q hq)
      have hlt' : ¬ n.slot ≥ s.nodes.length := by rw [← hqn]; exact Nat.not_le.mpr hlt
      simp only [ha, if_true, hlt', if_false]
      rw [← hqn]
      have hs' := h.setVal q.node v
      have hacc := doAccess_lfu hs' hda (q := q) hq now
      simp only [getD_set_self hlt] at hacc
      rw [reState_setVal] at hacc
      rw [hacc]
      have hg := h.reState hq (List.Perm.refl u) (q.cnt + 1) v (s.nodes.getD q.node default).stamp
      refine ⟨by triv, ?_, hda, _, _, hg⟩
      rw [absLfu_eq hg, entsOf_reState h hq, hkey, hda]
      simp only [Lfu.access, ent, hkey, hda, Bool.false_eq_true, if_false]
    · simp only [ha, Bool.false_eq_true, if_false]
      exact ⟨by triv, absLfu_eq h, hda, u, f, h⟩

theorem lfu_find1 (h : Good cap s u f) (hda : s.da = false) (now : Time) (k : Key) (peek : Bool) :
    (find1 s now k peek).2 = (Lfu.find1 (absLfu s) k peek).2 ∧
    absLfu (find1 s now k peek).1 = (Lfu.find1 (absLfu s) k peek).1 ∧
    (find1 s now k peek).1.da = false ∧ ∃ u' f', Good cap (find1 s now k peek).1 u' f' := by
  rw [absLfu_eq h]
  unfold find1 Lfu.find1
  rw [if_neg h.not_ub]
  cases hf : findNode s k with
  | none =>
    simp only [absent h hf]
    exact ⟨by triv, absLfu_eq h, hda, u, f, h⟩
  | some n =>
    obtain ⟨hn, q, hq, hqn, hkey, hget⟩ := resident h hf
    have hlt : q.node < s.nodes.length := h.lt_u (h.node_mem q hq)
    have hlt' : ¬ n.slot ≥ s.nodes.length := by rw [← hqn]; exact Nat.not_le.mpr hlt
    simp only [hget, hlt', if_false]
    rw [← hqn]
    cases peek with
    | true =>
      simp only [if_true, h.not_ub, h.cntOf hq]
      exact ⟨by triv, absLfu_eq h, hda, u, f, h⟩
    | false =>
      simp only [Bool.false_eq_true, if_false]
      rw [doAccess_lfu h hda hq now]
      have hg := h.reState hq (List.Perm.refl u) (q.cnt + 1) (s.nodes.getD q.node default).val
        (s.nodes.getD q.node default).stamp
      obtain ⟨hc, hv⟩ := reState_read h hq (List.Perm.refl u) (q.cnt + 1) (s.nodes.getD q.node default).val
        (s.nodes.getD q.node default).stamp
      simp only [hg.not_ub, Bool.false_eq_true, if_false, hc, hv]
      refine ⟨by triv, ?_, hda, _, _, hg⟩
      rw [absLfu_eq hg, entsOf_reState h hq, hkey, hda]
      simp only [Lfu.access, ent, hkey, hda, Bool.false_eq_true, if_false]

theorem lfu_erase1 (h : Good cap s u f) (hda : s.da = false) (k : Key) :
    (erase1 s k).2 = (Lfu.erase1 (absLfu s) k).2 ∧
    absLfu (erase1 s k).1 = (Lfu.erase1 (absLfu s) k).1 ∧
    (erase1 s k).1.da = false ∧ ∃ u' f', Good cap (erase1 s k).1 u' f' := by
  rw [absLfu_eq h]
  unfold erase1 Lfu.erase1
  rw [if_neg h.not_ub]
  cases hf : findNode s k with
  | none =>
    simp only [absent h hf]
    exact ⟨by triv, absLfu_eq h, hda, u, f, h⟩
  | some n =>
    obtain ⟨hn, q, hq, hqn, hkey, hget⟩ := resident h hf
    simp only [hget]
    rw [doErase_eq h hn hq hqn]
    have hg := h.erase hn hq hqn
    refine ⟨by triv, ?_, hda, _, _, hg⟩
    rw [absLfu_eq hg, entsOf_erased h hn hq hqn, ← keyOf_node h hn, ← hqn, hkey]

end

def RelLfu (cap : Nat) (s : CState) (t : LfuState) : Prop :=
  s.da = false ∧ (∃ u f, Good cap s u f) ∧ absLfu s = t

theorem simLfu (cap : Nat) : Sim core Lfu.core (RelLfu cap) where
  pre s t now hr := hr
  insert1 s t now k v a ttl hr := by
    obtain ⟨hda, ⟨u, f, h⟩, rfl⟩ := hr
    obtain ⟨h1, h2, h3, h4⟩ := lfu_insert1 h hda now k v a
    exact ⟨h1, h3, h4, h2⟩
  find1 s t now k peek hr := by
    obtain ⟨hda, ⟨u, f, h⟩, rfl⟩ := hr
    obtain ⟨h1, h2, h3, h4⟩ := lfu_find1 h hda now k peek
    exact ⟨h1, h3, h4, h2⟩
  erase1 s t k hr := by
    obtain ⟨hda, ⟨u, f, h⟩, rfl⟩ := hr
    obtain ⟨h1, h2, h3, h4⟩ := lfu_erase1 h hda k
    exact ⟨h1, h3, h4, h2⟩
  noClearC := rfl
  noClearD := rfl
  clean s t now hr := ⟨rfl, hr⟩
  age s t now hr := by
    obtain ⟨hda, hg, rfl⟩ := hr
    show ((if s.da then dynAge s now else (s, 0)).2 = 0) ∧ RelLfu cap (if s.da then dynAge s now else (s, 0)).1 _
    rw [hda]
    exact ⟨rfl, hda, hg, rfl⟩
  updateTtl s t x hr := hr
  size s t hr := by
    obtain ⟨hda, ⟨u, f, h⟩, rfl⟩ := hr
    show s.used = (entsOf s).length
    rw [length_entsOf h, h.used]
  capacity s t hr := by
    obtain ⟨hda, ⟨u, f, h⟩, rfl⟩ := hr
    rfl

theorem relLfu_init {cap : Nat} (hcap : 0 < cap) (tickMs num den : Nat) :
    RelLfu cap (init false cap tickMs num den) (Lfu.init cap) :=
  ⟨rfl, ⟨_, _, good_init false hcap tickMs num den⟩, by
    rw [absLfu_eq (good_init false hcap tickMs num den)]; rfl⟩

/-! ## lfuda: the aging walk -/

/-- what an operation leaves alone -/
structure Frame (s s' : CState) : Prop where
  da : s'.da = s.da
  tick : s'.tick = s.tick
  num : s'.num = s.num
  den : s'.den = s.den
  keyed : s'.keyed = s.keyed

theorem Frame.refl (s : CState) : Frame s s := ⟨rfl, rfl, rfl, rfl, rfl⟩

theorem Frame.trans {a b c : CState} (h1 : Frame a b) (h2 : Frame b c) : Frame a c :=
  ⟨h2.da.trans h1.da, h2.tick.trans h1.tick, h2.num.trans h1.num, h2.den.trans h1.den,
    h2.keyed.trans h1.keyed⟩

theorem Frame.keyOf {s s' : CState} (h : Frame s s') (x : Nat) : keyOf s' x = keyOf s x := by
  unfold Cnt.keyOf; rw [h.keyed]

/-- is the list node idle for strictly longer than the tick? -/
def idleN (s : CState) (now : Time) (x : Nat) : Bool :=
  decide ((s.nodes.getD x default).stamp + s.tick < now)

/-- the state after the walk aged the node of `q` -/
def aged (s : CState) (q : QNode) (ord : List Nat) (now : Time) : CState :=
  reState s q.node q.id (q.cnt * s.num / s.den) ord (s.nodes.getD q.node default).val now

theorem frame_aged (s : CState) (q : QNode) (ord : List Nat) (now : Time) : Frame s (aged s q ord now) :=
  ⟨rfl, rfl, rfl, rfl, rfl⟩

section
variable {cap : Nat} {s : CState} {u f : List Nat}

theorem entsOf_aged (h : Good cap s u f) (hda : s.da = true) {q : QNode} (hq : q ∈ s.lfuq) (ord : List Nat)
    (now : Time) :
    entsOf (aged s q ord now) = Lfuda.ageOne now s.num s.den (entsOf s) (keyOf s q.node) := by
  unfold aged
  rw [entsOf_reState h hq, Lfuda.ageOne, getE_ents h hq]
  simp only [ent, hda, if_true]

end

theorem ageLoop_spec {cap : Nat} {f : List Nat} (now : Time) :
    ∀ (w : List Nat) (s : CState) (p : List Nat) (daLast : Option (Option Nat)) (n fuel : Nat),
      Good cap s (w ++ p) f → s.da = true → tgtOf daLast s.openEnd = (p ++ f).head? →
      (∀ y ∈ p, (s.nodes.getD y default).stamp = now) → w.length ≤ fuel →
      (ageLoop now fuel s daLast n).2 = n + (w.takeWhile (idleN s now)).length ∧
      Good cap (ageLoop now fuel s daLast n).1
        (w.dropWhile (idleN s now) ++ (w.takeWhile (idleN s now)).reverse ++ p) f ∧
      Frame s (ageLoop now fuel s daLast n).1 ∧
      entsOf (ageLoop now fuel s daLast n).1 =
        ((w.takeWhile (idleN s now)).map (keyOf s)).foldl (Lfuda.ageOne now s.num s.den) (entsOf s) := by
  intro w
  induction w with
  | nil =>
    intro s p daLast n fuel h hda htgt hst hfuel
    have h' : Good cap s p f := h
    rw [ageLoop_stop_done h' now hst]
    exact ⟨rfl, h', Frame.refl s, rfl⟩
  | cons x w ih =>
    intro s p daLast n fuel h hda htgt hst hfuel
    have hx : x ∈ (x :: w) ++ p := by simp
    obtain ⟨q, hq, hqx⟩ := h.mem_node x hx
    by_cases hidle : (s.nodes.getD x default).stamp + s.tick < now
    · obtain ⟨fuel', rfl⟩ : ∃ fuel', fuel = fuel' + 1 :=
        ⟨fuel - 1, by simp only [List.length_cons] at hfuel; omega⟩
      have hI : idleN s now x = true := decide_eq_true hidle
      have hstep := ageLoop_step (w := w) (p := p) h hq hqx now htgt hidle fuel' n
      subst hqx
      have hs2 : reState s q.node q.id (q.cnt * s.num / s.den) ((w ++ q.node :: p) ++ f)
          (s.nodes.getD q.node default).val now = aged s q ((w ++ q.node :: p) ++ f) now := rfl
      rw [hs2] at hstep
      rw [hstep]
      have hnd : ((q.node :: w) ++ p).Nodup := h.nodup_u
      have hqw : q.node ∉ w ++ p := by
        have := hnd
        rw [List.cons_append, List.nodup_cons] at this
        exact this.1
      have hlt : q.node < s.nodes.length := h.lt_u hx
      have hperm : (w ++ q.node :: p).Perm ((q.node :: w) ++ p) := List.perm_middle
      have h2 : Good cap (aged s q ((w ++ q.node :: p) ++ f) now) (w ++ q.node :: p) f :=
        h.reState hq hperm _ _ _
      have hst2 : ∀ y ∈ q.node :: p,
          ((aged s q ((w ++ q.node :: p) ++ f) now).nodes.getD y default).stamp = now := by
        intro y hy
        show ((s.nodes.set q.node _).getD y default).stamp = now
        by_cases e : q.node = y
        · rw [← e, getD_set_self hlt]
        · rw [getD_set_ne e]
          rcases List.mem_cons.mp hy with e' | e'
          · exact absurd e'.symm e
          · exact hst y e'
      have hcongr : ∀ y ∈ w, idleN (aged s q ((w ++ q.node :: p) ++ f) now) now y = idleN s now y := by
        intro y hy
        have e : q.node ≠ y := fun e => hqw (e ▸ List.mem_append_left _ hy)
        show decide (((s.nodes.set q.node _).getD y default).stamp + s.tick < now) = _
        rw [getD_set_ne e]
        rfl
      obtain ⟨i1, i2, i3, i4⟩ := ih (aged s q ((w ++ q.node :: p) ++ f) now) (q.node :: p)
        (some (some q.node)) (n + 1) fuel' h2 hda rfl hst2
        (by simp only [List.length_cons] at hfuel; omega)
      rw [takeWhile_congr' hcongr] at i1 i2 i4
      rw [dropWhile_congr' hcongr] at i2
      simp only [List.takeWhile_cons, List.dropWhile_cons, hI, if_true]
      refine ⟨?_, ?_, (frame_aged s q _ now).trans i3, ?_⟩
      · rw [i1, List.length_cons]; omega
      · have e : List.dropWhile (idleN s now) w ++ (q.node :: List.takeWhile (idleN s now) w).reverse ++ p
            = List.dropWhile (idleN s now) w ++ (List.takeWhile (idleN s now) w).reverse ++ q.node :: p := by
          simp
        rw [e]; exact i2
      · rw [i4, List.map_cons, List.foldl_cons, entsOf_aged h hda hq]
        have : ∀ l : List Nat, l.map (keyOf (aged s q ((w ++ q.node :: p) ++ f) now)) = l.map (keyOf s) :=
          fun l => List.map_congr_left (fun y _ => (frame_aged s q _ now).keyOf y)
        rw [this]
        rfl
    · have h' : Good cap s (x :: (w ++ p)) f := h
      rw [ageLoop_stop_fresh h' now hidle]
      have hI : idleN s now x = false := decide_eq_false hidle
      simp only [List.takeWhile_cons, List.dropWhile_cons, hI, Bool.false_eq_true, if_false]
      exact ⟨rfl, by simpa using h, Frame.refl s, rfl⟩

section
variable {cap : Nat} {s : CState} {u f : List Nat}

theorem idle_eq (h : Good cap s u f) (hda : s.da = true) (now : Time) {t : LfudaState}
    (hte : t.ents = entsOf s) (htk : t.tick = s.tick) {x : Nat} (hx : x ∈ u) :
    Lfuda.idle t now (keyOf s x) = idleN s now x := by
  obtain ⟨q, hq, rfl⟩ := h.mem_node x hx
  unfold Lfuda.idle
  rw [hte, getE_ents h hq, htk]
  simp only [ent, hda, if_true]
  rfl

/-- `do_dynamic_age` is the L1 `dynAge` -/
theorem dynAge_spec (h : Good cap s u f) (hda : s.da = true) (now : Time) :
    (dynAge s now).2 = (Lfuda.dynAge (absLfuda s) now).2 ∧
    absLfuda (dynAge s now).1 = (Lfuda.dynAge (absLfuda s) now).1 ∧
    Frame s (dynAge s now).1 ∧ ∃ u', Good cap (dynAge s now).1 u' f ∧ u'.length = u.length := by
  have h0 : Good cap s (u ++ []) f := by rw [List.append_nil]; exact h
  have hfuel : u.length ≤ s.order.length + 1 := by rw [h.order_length]; have := h.len; omega
  obtain ⟨i1, i2, i3, i4⟩ := ageLoop_spec now u s [] none 0 (s.order.length + 1) h0 hda
    (by simp [tgtOf, h.oend]) (by intro y hy; cases hy) hfuel
  have hdyn : dynAge s now = ageLoop now (s.order.length + 1) s none 0 := by
    unfold dynAge; rw [if_neg h.not_ub]
  rw [hdyn]
  rw [List.append_nil] at i2
  have hold : ∀ t : LfudaState, t.ents = entsOf s → t.tick = s.tick →
      (u.map (keyOf s)).takeWhile (Lfuda.idle t now) = (u.takeWhile (idleN s now)).map (keyOf s) := by
    intro t hte htk
    rw [List.takeWhile_map]
    congr 1
    exact takeWhile_congr' (fun x hx => idle_eq h hda now hte htk hx)
  have hyoung : ∀ t : LfudaState, t.ents = entsOf s → t.tick = s.tick →
      (u.map (keyOf s)).dropWhile (Lfuda.idle t now) = (u.dropWhile (idleN s now)).map (keyOf s) := by
    intro t hte htk
    rw [List.dropWhile_map]
    congr 1
    exact dropWhile_congr' (fun x hx => idle_eq h hda now hte htk hx)
  have hlen : (u.dropWhile (idleN s now) ++ (u.takeWhile (idleN s now)).reverse).length = u.length := by
    rw [List.length_append, List.length_reverse, Nat.add_comm, ← List.length_append,
      List.takeWhile_append_dropWhile]
  refine ⟨?_, ?_, i3, _, i2, hlen⟩
  · rw [i1, absLfuda_eq h]
    simp only [Lfuda.dynAge]
    rw [hold _ rfl rfl, List.length_map, Nat.zero_add]
  · rw [absLfuda_eq i2, absLfuda_eq h]
    simp only [Lfuda.dynAge]
    rw [hold _ rfl rfl, hyoung _ rfl rfl, i3.tick, i3.num, i3.den, i4]
    have : ∀ l : List Nat, l.map (keyOf (ageLoop now (s.order.length + 1) s none 0).1) = l.map (keyOf s) :=
      fun l => List.map_congr_left (fun y _ => i3.keyOf y)
    rw [this, List.map_append, List.map_reverse]

/-- `do_erase` is the L1 `removeKey` -/
theorem abs_erased (h : Good cap s u f) {n : HNode} (hn : n ∈ s.keyed) {q : QNode} (hq : q ∈ s.lfuq)
    (hqn : q.node = n.slot) :
    absLfuda (erased s u f n.slot n.id q.id) = Lfuda.removeKey (absLfuda s) n.key := by
  have hg := h.erase hn hq hqn
  have hu := h.slot_mem n hn
  rw [absLfuda_eq hg, absLfuda_eq h]
  simp only [Lfuda.removeKey]
  rw [entsOf_erased h hn hq hqn, ← keyOf_node h hn, filter_keys h (fun x hx => hx) hu]
  congr 1
  apply List.map_congr_left
  intro x hx
  obtain ⟨hx1, hx2⟩ := LList.mem_filter_ne.mp hx
  exact keyOf_erased h hn hq hqn hx1 hx2

/-- claiming the first free node is the L1 creating branch -/
theorem abs_pushed {nd : Nat} {r : List Nat} (h : Good cap s u (nd :: r)) (hda : s.da = true) {k : Key}
    (hk : ∀ n ∈ s.keyed, n.key ≠ k) (now : Time) (v : Val) :
    absLfuda (pushed s now k v nd) =
      { absLfuda s with
        ents := fileCnt (absLfuda s).ents { key := k, val := v, cnt := 1, stamp := now },
        age := (absLfuda s).age ++ [k] } := by
  have hg := h.push hk now v
  rw [absLfuda_eq hg, absLfuda_eq h]
  simp only []
  rw [entsOf_pushed h hk now v, hda, List.map_append]
  have : u.map (keyOf (pushed s now k v nd)) = u.map (keyOf s) :=
    List.map_congr_left (fun x hx => keyOf_pushed_old h hk now v hx)
  rw [this]
  simp only [List.map_cons, List.map_nil, keyOf_pushed_new h hk now v, if_true]
  rfl

/-- `do_access` (lfuda) is the L1 `access` -/
theorem abs_access (h : Good cap s u f) (hda : s.da = true) {q : QNode} (hq : q ∈ s.lfuq) (v : Val)
    (now : Time) :
    Good cap (reState s q.node q.id (q.cnt + 1) (u.filter (fun x => !(x == q.node)) ++ q.node :: f) v now)
      (u.filter (fun x => !(x == q.node)) ++ [q.node]) f ∧
    absLfuda (reState s q.node q.id (q.cnt + 1) (u.filter (fun x => !(x == q.node)) ++ q.node :: f) v now)
      = Lfuda.access (absLfuda s) { ent s q with val := v } now := by
  have hnd := h.node_mem q hq
  have hord : u.filter (fun x => !(x == q.node)) ++ q.node :: f
      = (u.filter (fun x => !(x == q.node)) ++ [q.node]) ++ f := by simp
  rw [hord]
  have hg := h.reState hq (LList.filter_snoc_perm h.nodup_u hnd) (q.cnt + 1) v now
  refine ⟨hg, ?_⟩
  rw [absLfuda_eq hg, absLfuda_eq h]
  simp only [Lfuda.access]
  rw [entsOf_reState h hq, hda]
  have hk : ∀ l : List Nat, l.map (keyOf (reState s q.node q.id (q.cnt + 1)
      ((u.filter (fun x => !(x == q.node)) ++ [q.node]) ++ f) v now)) = l.map (keyOf s) := fun l => rfl
  rw [hk, List.map_append, ← filter_keys h (fun x hx => hx) hnd]
  rfl

theorem doPrune_lfuda (h : Good cap s u f) (hda : s.da = true) (hpos : 0 < u.length) (now : Time) :
    absLfuda (doPrune s now) = Lfuda.prune (absLfuda s) now ∧ (doPrune s now).da = true ∧
      (∀ n ∈ (doPrune s now).keyed, n ∈ s.keyed) ∧
      ∃ u' nd, Good cap (doPrune s now) u' (nd :: f) := by
  obtain ⟨_, d2, d3, u1, g1, hlen⟩ := dynAge_spec h hda now
  obtain ⟨q, rest, hl⟩ := lfuq_cons g1 (by rw [hlen]; exact hpos)
  obtain ⟨n, hn, hq, hqn, hkey, her, _⟩ := evict_head g1 hl
  have hpr : doPrune s now = erased (dynAge s now).1 u1 f n.slot n.id q.id := by
    unfold doPrune
    have hu : s.used > 0 := by rw [h.used]; exact hpos
    simp only [hu, if_true, hda, g1.not_ub, hl]
    exact her
  rw [hpr]
  refine ⟨?_, d3.da.trans hda, ?_, _, _, g1.erase hn hq hqn⟩
  · rw [abs_erased g1 hn hq hqn]
    unfold Lfuda.prune
    simp only [← d2]
    have : (absLfuda (dynAge s now).1).ents = ent (dynAge s now).1 q :: rest.map (ent (dynAge s now).1) := by
      show entsOf _ = _
      rw [entsOf_eq, hl]; rfl
    rw [this]
    show _ = Lfuda.removeKey _ (keyOf (dynAge s now).1 q.node)
    rw [hkey]
  · intro m hm
    have := (List.mem_filter.mp hm).1
    rw [d3.keyed] at this
    exact this

theorem doInsert_lfuda (h : Good cap s u f) (hda : s.da = true) {k : Key} (hk : ∀ n ∈ s.keyed, n.key ≠ k)
    (now : Time) (v : Val) :
    ∃ u' f', Good cap (doInsert s now k v) u' f' ∧ (doInsert s now k v).da = true ∧
      absLfuda (doInsert s now k v) =
        { (if (entsOf s).length ≥ cap then Lfuda.prune (absLfuda s) now else absLfuda s) with
          ents := fileCnt (if (entsOf s).length ≥ cap then Lfuda.prune (absLfuda s) now else absLfuda s).ents
            { key := k, val := v, cnt := 1, stamp := now },
          age := (if (entsOf s).length ≥ cap then Lfuda.prune (absLfuda s) now else absLfuda s).age ++ [k] } := by
  rw [length_entsOf h]
  by_cases hfull : u.length ≥ cap
  · have hpos : 0 < u.length := Nat.lt_of_lt_of_le h.cpos hfull
    obtain ⟨p1, p2, p3, u1, nd, g1⟩ := doPrune_lfuda h hda hpos now
    have hs1 : (if s.used ≥ s.order.length then doPrune s now else s) = doPrune s now := by
      rw [if_pos ((full_iff h).mpr hfull)]
    have hk1 : ∀ m ∈ (doPrune s now).keyed, m.key ≠ k := fun m hm => hk m (p3 m hm)
    rw [doInsert_eq g1 now hs1 k v]
    refine ⟨_, _, g1.push hk1 now v, p2, ?_⟩
    rw [abs_pushed g1 p2 hk1 now v, p1, if_pos hfull]
  · obtain ⟨nd, r, rfl⟩ := free_cons h hfull
    have hs1 : (if s.used ≥ s.order.length then doPrune s now else s) = s := by
      rw [if_neg (fun hh => hfull ((full_iff h).mp hh))]
    rw [doInsert_eq h now hs1 k v]
    refine ⟨_, _, h.push hk now v, hda, ?_⟩
    rw [abs_pushed h hda hk now v, if_neg hfull]

end

/-! ## lfuda: one-step simulation -/

section
variable {cap : Nat} {s : CState} {u f : List Nat}

theorem lfuda_insert1 (h : Good cap s u f) (hda : s.da = true) (now : Time) (k : Key) (v : Val) (a : Allow) :
    (insert1 s now k v a).2 = (Lfuda.insert1 (absLfuda s) now k v a).2 ∧
    absLfuda (insert1 s now k v a).1 = (Lfuda.insert1 (absLfuda s) now k v a).1 ∧
    (insert1 s now k v a).1.da = true ∧ ∃ u' f', Good cap (insert1 s now k v a).1 u' f' := by
  have hents : (absLfuda s).ents = entsOf s := rfl
  have hcap : (absLfuda s).cap = cap := h.order_length
  unfold insert1 Lfuda.insert1
  rw [if_neg h.not_ub, hents]
  cases hf : findNode s k with
  | none =>
    simp only [absent h hf]
    by_cases ha : a.ins = true
    · simp only [ha, if_true]
      obtain ⟨u', f', hg, hda', he⟩ := doInsert_lfuda h hda (findNode_none hf) now v
      refine ⟨by triv, ?_, hda', u', f', hg⟩
      rw [he, hcap]
    · simp only [ha, Bool.false_eq_true, if_false]
      exact ⟨by triv, by triv, hda, u, f, h⟩
  | some n =>
    obtain ⟨hn, q, hq, hqn, hkey, hget⟩ := resident h hf
    simp only [hget]
    by_cases ha : a.upd = true
    · have hlt : q.node < s.nodes.length := h.lt_u (h.node_mem q hq)
      have hlt' : ¬ n.slot ≥ s.nodes.length := by rw [← hqn]; exact Nat.not_le.mpr hlt
      simp only [ha, if_true, hlt', if_false]
      rw [← hqn]
      have hs' := h.setVal q.node v
      have hacc := doAccess_lfuda hs' hda (q := q) hq now
      simp only [getD_set_self hlt] at hacc
      rw [reState_setVal] at hacc
      rw [hacc]
      obtain ⟨hg, habs⟩ := abs_access h hda hq v now
      exact ⟨by triv, habs, hda, _, _, hg⟩
    · simp only [ha, Bool.false_eq_true, if_false]
      exact ⟨by triv, by triv, hda, u, f, h⟩

theorem lfuda_find1 (h : Good cap s u f) (hda : s.da = true) (now : Time) (k : Key) (peek : Bool) :
    (find1 s now k peek).2 = (Lfuda.find1 (absLfuda s) now k peek).2 ∧
    absLfuda (find1 s now k peek).1 = (Lfuda.find1 (absLfuda s) now k peek).1 ∧
    (find1 s now k peek).1.da = true ∧ ∃ u' f', Good cap (find1 s now k peek).1 u' f' := by
  have hents : (absLfuda s).ents = entsOf s := rfl
  unfold find1 Lfuda.find1
  rw [if_neg h.not_ub, hents]
  cases hf : findNode s k with
  | none =>
    simp only [absent h hf]
    exact ⟨by triv, by triv, hda, u, f, h⟩
  | some n =>
    obtain ⟨hn, q, hq, hqn, hkey, hget⟩ := resident h hf
    have hlt : q.node < s.nodes.length := h.lt_u (h.node_mem q hq)
    have hlt' : ¬ n.slot ≥ s.nodes.length := by rw [← hqn]; exact Nat.not_le.mpr hlt
    simp only [hget, hlt', if_false]
    rw [← hqn]
    cases peek with
    | true =>
      simp only [if_true, h.not_ub, h.cntOf hq]
      exact ⟨by triv, by triv, hda, u, f, h⟩
    | false =>
      simp only [Bool.false_eq_true, if_false]
      rw [doAccess_lfuda h hda hq now]
      obtain ⟨hg, habs⟩ := abs_access h hda hq (s.nodes.getD q.node default).val now
      have hord : u.filter (fun x => !(x == q.node)) ++ q.node :: f
          = (u.filter (fun x => !(x == q.node)) ++ [q.node]) ++ f := by simp
      obtain ⟨hc, hv⟩ := reState_read h hq (LList.filter_snoc_perm h.nodup_u (h.node_mem q hq)) (q.cnt + 1)
        (s.nodes.getD q.node default).val now
      rw [← hord] at hc hv
      simp only [hg.not_ub, Bool.false_eq_true, if_false, hc, hv]
      exact ⟨by triv, habs, hda, _, _, hg⟩

theorem lfuda_erase1 (h : Good cap s u f) (hda : s.da = true) (k : Key) :
    (erase1 s k).2 = (Lfuda.erase1 (absLfuda s) k).2 ∧
    absLfuda (erase1 s k).1 = (Lfuda.erase1 (absLfuda s) k).1 ∧
    (erase1 s k).1.da = true ∧ ∃ u' f', Good cap (erase1 s k).1 u' f' := by
  have hents : (absLfuda s).ents = entsOf s := rfl
  unfold erase1 Lfuda.erase1
  rw [if_neg h.not_ub, hents]
  cases hf : findNode s k with
  | none =>
    simp only [absent h hf]
    exact ⟨by triv, by triv, hda, u, f, h⟩
  | some n =>
    obtain ⟨hn, q, hq, hqn, hkey, hget⟩ := resident h hf
    simp only [hget]
    rw [doErase_eq h hn hq hqn]
    have hg := h.erase hn hq hqn
    refine ⟨by triv, ?_, hda, _, _, hg⟩
    rw [abs_erased h hn hq hqn, ← keyOf_node h hn, ← hqn, hkey]

end

def RelLfuda (cap : Nat) (s : CState) (t : LfudaState) : Prop :=
  s.da = true ∧ (∃ u f, Good cap s u f) ∧ absLfuda s = t

theorem simLfuda (cap : Nat) : Sim core Lfuda.core (RelLfuda cap) where
  pre s t now hr := hr
  insert1 s t now k v a ttl hr := by
    obtain ⟨hda, ⟨u, f, h⟩, rfl⟩ := hr
    obtain ⟨h1, h2, h3, h4⟩ := lfuda_insert1 h hda now k v a
    exact ⟨h1, h3, h4, h2⟩
  find1 s t now k peek hr := by
    obtain ⟨hda, ⟨u, f, h⟩, rfl⟩ := hr
    obtain ⟨h1, h2, h3, h4⟩ := lfuda_find1 h hda now k peek
    exact ⟨h1, h3, h4, h2⟩
  erase1 s t k hr := by
    obtain ⟨hda, ⟨u, f, h⟩, rfl⟩ := hr
    obtain ⟨h1, h2, h3, h4⟩ := lfuda_erase1 h hda k
    exact ⟨h1, h3, h4, h2⟩
  noClearC := rfl
  noClearD := rfl
  clean s t now hr := ⟨rfl, hr⟩
  age s t now hr := by
    obtain ⟨hda, ⟨u, f, h⟩, rfl⟩ := hr
    show ((if s.da then dynAge s now else (s, 0)).2 = (Lfuda.dynAge (absLfuda s) now).2) ∧
      RelLfuda cap (if s.da then dynAge s now else (s, 0)).1 (Lfuda.dynAge (absLfuda s) now).1
    rw [hda]
    obtain ⟨d1, d2, d3, u', g, _⟩ := dynAge_spec h hda now
    exact ⟨d1, d3.da.trans hda, ⟨u', f, g⟩, d2⟩
  updateTtl s t x hr := hr
  size s t hr := by
    obtain ⟨hda, ⟨u, f, h⟩, rfl⟩ := hr
    show s.used = (entsOf s).length
    rw [length_entsOf h, h.used]
  capacity s t hr := by
    obtain ⟨hda, ⟨u, f, h⟩, rfl⟩ := hr
    rfl

theorem relLfuda_init {cap : Nat} (hcap : 0 < cap) (tickMs num den : Nat) :
    RelLfuda cap (init true cap tickMs num den) (Lfuda.init cap tickMs num den) :=
  ⟨rfl, ⟨_, _, good_init true hcap tickMs num den⟩, by
    rw [absLfuda_eq (good_init true hcap tickMs num den)]; rfl⟩

/-- **C08 (model part), lfu_cache and lfuda_cache**: for every capacity ≥ 1 and every history the
node-level model never dereferences `end()`, never decrements `begin()`, never dereferences `begin()` of an
empty multimap, never indexes out of range, never erases through a stale iterator. -/
theorem no_ub (da : Bool) (cap tickMs num den : Nat) (hcap : 0 < cap) (ops : List (Time × Op)) :
    (core.run (init da cap tickMs num den) ops).1.ub = false := by
  cases da with
  | false =>
    obtain ⟨_, _, ⟨u, f, h⟩, _⟩ := (simLfu cap).run ops _ _ (relLfu_init hcap tickMs num den)
    exact h.ub
  | true =>
    obtain ⟨_, _, ⟨u, f, h⟩, _⟩ := (simLfuda cap).run ops _ _ (relLfuda_init hcap tickMs num den)
    exact h.ub

/-- lfu: same results as the L1 model on every history; the L2 state abstracts to the L1 state -/
theorem refines_l1_lfu (cap : Nat) (hcap : 0 < cap) (ops : List (Time × Op)) :
    (core.run (init false cap 0 1 2) ops).2 = (Lfu.core.run (Lfu.init cap) ops).2 ∧
    absLfu (core.run (init false cap 0 1 2) ops).1 = (Lfu.core.run (Lfu.init cap) ops).1 := by
  obtain ⟨h1, _, _, h2⟩ := (simLfu cap).run ops _ _ (relLfu_init hcap 0 1 2)
  exact ⟨h1, h2⟩

/-- lfuda: likewise (no assumption on the clock readings: the two models walk the same list) -/
theorem refines_l1_lfuda (cap tickMs num den : Nat) (hcap : 0 < cap) (ops : List (Time × Op)) :
    (core.run (init true cap tickMs num den) ops).2 = (Lfuda.core.run (Lfuda.init cap tickMs num den) ops).2 ∧
    absLfuda (core.run (init true cap tickMs num den) ops).1 = (Lfuda.core.run (Lfuda.init cap tickMs num den) ops).1 := by
  obtain ⟨h1, _, _, h2⟩ := (simLfuda cap).run ops _ _ (relLfuda_init hcap tickMs num den)
  exact ⟨h1, h2⟩

end Verif.L2.Cnt
