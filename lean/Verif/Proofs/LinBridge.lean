import Verif.Proofs.LinSound
import Verif.Conc.Linearizable
/-!
# The checker's notion of linearization is Herlihy–Wing linearizability

`Conc/Linearizable.lean` defines linearizability of an event history (`inv` / `res` events) and proves
that every history of a lock-protected object is linearizable (`locked_object_linearizable`).  The
recorded-history tier of C06 judges *records*: one `HOp` per completed call with the positions
(stamps of one global atomic counter) of its invocation and response.  This file shows that the two
notions agree on complete histories: `IsLin` (what `Lin.check` decides, `LinSound.lean`) holds of the
records of a history iff the history is linearizable in the sense of the theorem.  So a verdict
`some false` on a recorded history contradicts the conclusion of `locked_object_linearizable` for the
container model: the implementation did not behave as a lock-protected object realising the model.
-/
namespace Verif.Lin
open Verif Verif.Proto

/-- the sequential specification the histories are judged against: the container model; an operation
is the call together with the clock reading it was made at -/
def mstep (m : MState) (x : Time × Op) : MState × Out := m.step x.1 x.2

/-- `hs` are the records of the complete history `h`: every record names an invocation event of `h` and
its matching response (stamps = positions), every invocation of `h` has exactly one record -/
structure Records (h : List (Conc.Ev (Time × Op) Out)) (hs : List HOp) : Prop where
  sound : ∀ o ∈ hs, h[o.inv]? = some (.inv o.tid (o.now, o.op)) ∧ Conc.IsResponseOf h o.inv o.res o.tid o.out
  nodup : (hs.map (·.inv)).Nodup
  complete : ∀ i t x, h[i]? = some (.inv t x) → ∃ o ∈ hs, o.inv = i

/-! ## helpers -/

/-- the linearization entry of a record -/
def toLin (o : HOp) : Conc.LinOp (Time × Op) Out := ⟨o.inv, o.tid, (o.now, o.op), o.out⟩

theorem legal_toLin (m : MState) (lin : List HOp) :
    Conc.Legal mstep m ((lin.map toLin).map fun x => (x.op, x.out)) ↔ Legal m lin := by
  induction lin generalizing m with
  | nil => simp [Conc.Legal, Legal]
  | cons o r ih => simp [Conc.Legal, Legal, toLin, mstep, ← ih]

/-- the matching response of an invocation is unique -/
theorem isResponseOf_unique {Op' Out' : Type} {h : List (Conc.Ev Op' Out')} {i j j' : Nat}
    {t : Conc.Tid} {out out' : Out'}
    (h1 : Conc.IsResponseOf h i j t out) (h2 : Conc.IsResponseOf h i j' t out') :
    j = j' ∧ out = out' := by
  rcases Nat.lt_trichotomy j j' with hlt | heq | hgt
  · exact absurd rfl (h2.2.2 j _ h1.1 hlt h1.2.1)
  · subst heq
    have := h1.2.1
    rw [h2.2.1] at this
    injection this with this
    injection this with _ ho
    exact ⟨rfl, ho.symm⟩
  · exact absurd rfl (h1.2.2 j' _ h2.1 hgt h2.2.1)

theorem before_cons {α : Type} {x a b : α} {l : List α} :
    Conc.Before (x :: l) a b ↔ (x = a ∧ b ∈ l) ∨ Conc.Before l a b := by
  constructor
  · rintro ⟨l1, l2, l3, h⟩
    cases l1 with
    | nil =>
      simp at h
      left; exact ⟨h.1, by rw [h.2]; simp⟩
    | cons y l1 =>
      simp at h
      right; exact ⟨l1, l2, l3, h.2⟩
  · rintro (⟨rfl, hb⟩ | ⟨l1, l2, l3, rfl⟩)
    · obtain ⟨l2, l3, rfl⟩ := List.append_of_mem hb
      exact ⟨[], l2, l3, rfl⟩
    · exact ⟨x :: l1, l2, l3, rfl⟩

theorem before_mem {α : Type} {a b : α} {l : List α} (h : Conc.Before l a b) : a ∈ l ∧ b ∈ l := by
  obtain ⟨l1, l2, l3, rfl⟩ := h
  simp

theorem before_map {α β : Type} (f : α → β) {a b : α} {l : List α} (h : Conc.Before l a b) :
    Conc.Before (l.map f) (f a) (f b) := by
  obtain ⟨l1, l2, l3, rfl⟩ := h
  exact ⟨l1.map f, l2.map f, l3.map f, by simp⟩

theorem before_total {α : Type} {a b : α} {l : List α} (ha : a ∈ l) (hb : b ∈ l) (hne : a ≠ b) :
    Conc.Before l a b ∨ Conc.Before l b a := by
  induction l with
  | nil => cases ha
  | cons x l ih =>
    rcases List.mem_cons.1 ha with rfl | ha'
    · rcases List.mem_cons.1 hb with rfl | hb'
      · exact absurd rfl hne
      · exact Or.inl (before_cons.2 (Or.inl ⟨rfl, hb'⟩))
    · rcases List.mem_cons.1 hb with rfl | hb'
      · exact Or.inr (before_cons.2 (Or.inl ⟨rfl, ha'⟩))
      · rcases ih ha' hb' with h | h
        · exact Or.inl (before_cons.2 (Or.inr h))
        · exact Or.inr (before_cons.2 (Or.inr h))

theorem before_asymm {α : Type} {a b : α} {l : List α} (hn : l.Nodup)
    (h1 : Conc.Before l a b) (h2 : Conc.Before l b a) : False := by
  induction l with
  | nil => exact absurd (before_mem h1).1 (by simp)
  | cons x l ih =>
    rw [List.nodup_cons] at hn
    rcases before_cons.1 h1 with ⟨rfl, hb⟩ | h1'
    · rcases before_cons.1 h2 with ⟨rfl, _⟩ | h2'
      · exact hn.1 hb
      · exact hn.1 (before_mem h2').2
    · rcases before_cons.1 h2 with ⟨rfl, _⟩ | h2'
      · exact hn.1 (before_mem h1').2
      · exact ih hn.2 h1' h2'

theorem pairwise_before {α : Type} {R : α → α → Prop} {a b : α} {l : List α}
    (hp : l.Pairwise R) (h : Conc.Before l a b) : R a b := by
  obtain ⟨l1, l2, l3, rfl⟩ := h
  rw [List.pairwise_append] at hp
  exact (List.pairwise_cons.1 hp.2.1).1 b (by simp)

theorem pairwise_of_before {α : Type} {R : α → α → Prop} {l : List α}
    (h : ∀ a b, Conc.Before l a b → R a b) : l.Pairwise R := by
  induction l with
  | nil => exact List.Pairwise.nil
  | cons x l ih =>
    rw [List.pairwise_cons]
    exact ⟨fun b hb => h x b (before_cons.2 (Or.inl ⟨rfl, hb⟩)),
      ih fun a b hab => h a b (before_cons.2 (Or.inr hab))⟩

/-- members of a list without duplicate keys are determined by their key -/
theorem eq_of_key_eq {α β : Type} (f : α → β) {l : List α} (hn : (l.map f).Nodup) {a b : α}
    (ha : a ∈ l) (hb : b ∈ l) (hab : f a = f b) : a = b := by
  apply Classical.byContradiction
  intro hne
  rcases before_total ha hb hne with h | h
  · exact pairwise_before hn (before_map f h) hab
  · exact pairwise_before hn (before_map f h) hab.symm

theorem nodup_of_map {α β : Type} (f : α → β) {l : List α} (hn : (l.map f).Nodup) : l.Nodup :=
  List.Pairwise.of_map f (fun _ _ hne heq => hne (congrArg f heq)) hn

theorem exists_map_of_forall {α β : Type} (f : α → β) (P : α → Prop) {l' : List β}
    (h : ∀ x ∈ l', ∃ o, P o ∧ f o = x) : ∃ l : List α, l.map f = l' ∧ ∀ o ∈ l, P o := by
  induction l' with
  | nil => exact ⟨[], rfl, fun _ ho => by cases ho⟩
  | cons x l' ih =>
    obtain ⟨o, ho, rfl⟩ := h x (List.mem_cons_self ..)
    obtain ⟨l, rfl, hl⟩ := ih fun y hy => h y (List.mem_cons_of_mem _ hy)
    refine ⟨o :: l, rfl, ?_⟩
    intro o' ho'
    rcases List.mem_cons.1 ho' with rfl | ho'
    · exact ho
    · exact hl o' ho'

/-- what the checker accepts is linearizable in the sense of Herlihy and Wing -/
theorem isLin_linearizable {h : List (Conc.Ev (Time × Op) Out)} {hs lin : List HOp} {m : MState}
    (hr : Records h hs) (hl : IsLin m hs lin) : Conc.Linearizable mstep m h := by
  obtain ⟨hperm, hrt, hleg⟩ := hl
  have hmem : ∀ o ∈ lin, o ∈ hs := fun o ho => hperm.mem_iff.1 ho
  have hnd : ((lin.map toLin).map (·.pos)).Nodup := by
    have : (lin.map toLin).map (·.pos) = lin.map (·.inv) := by
      rw [List.map_map]; rfl
    rw [this]; exact (hperm.map _).nodup_iff.2 hr.nodup
  have key : ∀ oa ob, oa ∈ lin → ob ∈ lin → oa.res < ob.inv →
      Conc.Before (lin.map toLin) (toLin oa) (toLin ob) := by
    intro oa ob ha hb hlt
    have hra := (hr.sound oa (hmem oa ha)).2
    have hne : oa ≠ ob := by
      rintro rfl
      have := hra.1
      omega
    rcases before_total ha hb hne with h1 | h1
    · exact before_map _ h1
    · exact absurd hlt (pairwise_before hrt h1)
  refine ⟨lin.map toLin, ?_, ?_, hnd, ?_, ?_, ?_⟩
  · exact (legal_toLin m lin).2 hleg
  · intro x hx
    obtain ⟨o, ho, rfl⟩ := List.mem_map.1 hx
    exact (hr.sound o (hmem o ho)).1
  · intro i j t op out hi hres
    obtain ⟨o, ho, rfl⟩ := hr.complete i t op hi
    obtain ⟨h1, h2⟩ := hr.sound o ho
    rw [h1] at hi
    injection hi with hi
    injection hi with ht hop
    subst ht; subst hop
    obtain ⟨_, rfl⟩ := isResponseOf_unique h2 hres
    exact List.mem_map.2 ⟨o, hperm.mem_iff.2 ho, rfl⟩
  · intro a b ha hb htid hpos
    obtain ⟨oa, hoa, rfl⟩ := List.mem_map.1 ha
    obtain ⟨ob, hob, rfl⟩ := List.mem_map.1 hb
    apply key oa ob hoa hob
    obtain ⟨_, hra⟩ := hr.sound oa (hmem oa hoa)
    obtain ⟨hib, _⟩ := hr.sound ob (hmem ob hob)
    simp only [toLin] at htid hpos
    rcases Nat.lt_trichotomy oa.res ob.inv with h1 | h1 | h1
    · exact h1
    · rw [← h1, hra.2.1] at hib
      injection hib with hib
      cases hib
    · exact absurd htid.symm (hra.2.2 ob.inv _ hpos h1 hib)
  · intro a b j out ha hb hres hjb
    obtain ⟨oa, hoa, rfl⟩ := List.mem_map.1 ha
    obtain ⟨ob, hob, rfl⟩ := List.mem_map.1 hb
    apply key oa ob hoa hob
    obtain ⟨_, hra⟩ := hr.sound oa (hmem oa hoa)
    obtain ⟨hj, _⟩ := isResponseOf_unique hra hres
    rw [hj]; exact hjb

/-- a Herlihy–Wing linearizable complete history has a linearization in the checker's sense: the
checker (which is complete, `check_complete`) cannot answer `some false` on its records -/
theorem linearizable_isLin {h : List (Conc.Ev (Time × Op) Out)} {hs : List HOp} {m : MState}
    (hr : Records h hs) (hl : Conc.Linearizable mstep m h) : ∃ lin, IsLin m hs lin := by
  obtain ⟨lin', hL⟩ := hl
  have hin : ∀ o ∈ hs, toLin o ∈ lin' := fun o ho => by
    obtain ⟨h1, h2⟩ := hr.sound o ho
    exact hL.complete o.inv o.res o.tid (o.now, o.op) o.out h1 h2
  have hex : ∀ x ∈ lin', ∃ o, o ∈ hs ∧ toLin o = x := by
    intro x hx
    obtain ⟨o, ho, hoi⟩ := hr.complete _ _ _ (hL.isInv x hx)
    exact ⟨o, ho, eq_of_key_eq (·.pos) hL.nodup (hin o ho) hx hoi⟩
  obtain ⟨lin, hlin, hsub⟩ := exists_map_of_forall toLin (· ∈ hs) hex
  subst hlin
  have hndlin : (lin.map (·.inv)).Nodup := by
    have := hL.nodup
    rw [List.map_map] at this
    exact this
  refine ⟨lin, ?_, ?_, (legal_toLin m lin).1 hL.legal⟩
  · refine (List.perm_ext_iff_of_nodup (nodup_of_map _ hndlin) (nodup_of_map _ hr.nodup)).2 fun o => ⟨hsub o, fun ho => ?_⟩
    obtain ⟨o', ho', heq⟩ := List.mem_map.1 (hin o ho)
    have hinv : o'.inv = o.inv := congrArg (·.pos) heq
    have := eq_of_key_eq (·.inv) hr.nodup (hsub o' ho') ho hinv
    exact this ▸ ho'
  · apply pairwise_of_before
    intro a b hab hlt
    obtain ⟨ha, hb⟩ := before_mem hab
    have h1 := before_map toLin hab
    have h2 := hL.realTime (toLin b) (toLin a) b.res b.out (List.mem_map_of_mem hb)
      (List.mem_map_of_mem ha) (hr.sound b (hsub b hb)).2 hlt
    exact before_asymm hL.nodup (before_map (·.pos) h1) (before_map (·.pos) h2)

/-- non-vacuity: a two-thread overlapping history and its records -/
example :
    let h : List (Conc.Ev (Time × Op) Out) :=
      [.inv 0 (5, .size), .inv 1 (5, .empty), .res 1 (.bool true), .res 0 (.nat 0)]
    let hs : List HOp := [⟨0, 0, 3, 5, .size, .nat 0⟩, ⟨1, 1, 2, 5, .empty, .bool true⟩]
    Records h hs := by
  intro h hs
  refine ⟨?_, ?_, ?_⟩
  · intro o ho
    simp only [hs, List.mem_cons, List.not_mem_nil, or_false] at ho
    rcases ho with rfl | rfl
    · refine ⟨rfl, by decide, rfl, ?_⟩
      intro k e h1 h2 hk
      simp only at h1 h2
      have : k = 1 ∨ k = 2 := by omega
      rcases this with rfl | rfl
      · simp [h] at hk; subst hk; simp [Conc.Ev.tid]
      · simp [h] at hk; subst hk; simp [Conc.Ev.tid]
    · refine ⟨rfl, by decide, rfl, ?_⟩
      intro k e h1 h2 hk
      simp only at h1 h2
      omega
  · decide
  · intro i t x hi
    match i, hi with
    | 0, _ => exact ⟨_, List.mem_cons_self .., rfl⟩
    | 1, _ => exact ⟨_, List.mem_cons_of_mem _ (List.mem_cons_self ..), rfl⟩
    | 2, hi => simp [h] at hi
    | 3, hi => simp [h] at hi
    | n + 4, hi => simp [h] at hi

end Verif.Lin
