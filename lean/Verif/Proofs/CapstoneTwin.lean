import Verif.Twin

/-!
# Capstone for the twin judges (C20, C19, C18): what an `ok` verdict says about the recorded events

`Verif/Twin.lean` compares the event streams of two real container instances driven by one script.  This file turns
the verdict `Verdict.ok n kfs` of each comparator into a statement about the recorded events themselves.

* `c20_observed` (C20): the last `@pre` event of instance 0 — the `clear()` — recorded `size() = 0`,
  `empty() = true` and an empty sweep; and call by call the continuation on the cleared container and the same
  calls on a freshly constructed container (instance 1) have the same result and the same `size()`, `empty()`,
  `capacity()` and sweep.
* `c19_observed` (C19, containers without TTL): dropping from instance 1 the spliced `@x` calls (`shared`, which
  stops at the first spliced call that by its own result did have an effect), the `n` compared calls of instance 0
  and the first `n` shared calls of instance 1 agree in call, result and observers; either all of instance 0 was
  compared or the comparison ended at an effective spliced call.  `c19_observed_all`: if every `@x` call satisfies
  `noEffect`, all calls of instance 0 were compared, against exactly the un-spliced calls of instance 1.
* `c18_observed` (C18, containers other than ut_map/ut_set): `RangeAgree`, the alignment of every `@g<n>` range
  call of instance 0 with its group of single calls on instance 1.

The statements are about the log; that the log is what the C++ library did is the harness's business.
-/

namespace Verif.CapstoneTwin
open Verif Verif.Proto Verif.Twin

/-- two recorded events are the same call with the same result, and the harness observed the same `size()`,
`empty()`, `capacity()` and the same sweep (`find` over the key universe) after them -/
def Agree (a b : Event) : Prop :=
  a.op = b.op ∧ a.out = b.out ∧ a.obs.size = b.obs.size ∧ a.obs.empty = b.obs.empty ∧
    a.obs.cap = b.obs.cap ∧ a.obs.sweep = b.obs.sweep

theorem agree_of_checks {a b : Event} (hop : (a.op != b.op) = false)
    (h : (a.out == b.out && sameObs a.obs b.obs) = true) : Agree a b := by
  have hop' : a.op = b.op := by simpa using hop
  simp only [Bool.and_eq_true, sameObs, beq_iff_eq] at h
  obtain ⟨ho, hobs⟩ := h
  refine ⟨hop', ho, ?_, ?_, ?_, ?_⟩ <;> rw [hobs]

/-! ## C20: after `clear()` versus a freshly constructed container -/

/-- the prefix of instance 0: the calls tagged `@pre`, the last of which is `clear()` -/
def pre0 (evs : List Event) : List Event := evs.filter (fun e => e.inst == 0 && e.tag == "@pre")
/-- the continuation on the cleared container (instance 0) -/
def cont0 (evs : List Event) : List Event := evs.filter (fun e => e.inst == 0 && e.tag != "@pre")
/-- the same continuation on a freshly constructed container (instance 1) -/
def fresh1 (evs : List Event) : List Event := evs.filter (fun e => e.inst == 1 && e.tag != "@pre")

theorem c20Loop_ok : ∀ (l0 l1 : List Event) (n m : Nat) (kfs : List String),
    c20Loop n l0 l1 = .ok m kfs →
    m = n + l0.length ∧ kfs = [] ∧
      ∀ i (h0 : i < l0.length), ∃ h1 : i < l1.length, Agree l0[i] l1[i] := by
  intro l0
  induction l0 with
  | nil =>
    intro l1 n m kfs h
    simp only [c20Loop, Verdict.ok.injEq] at h
    refine ⟨by simp [h.1], h.2.symm, ?_⟩
    intro i h0; simp at h0
  | cons e0 r0 ih =>
    intro l1 n m kfs h
    cases l1 with
    | nil => simp [c20Loop] at h
    | cons e1 r1 =>
      simp only [c20Loop] at h
      split at h
      · cases h
      · rename_i hop
        split at h
        · rename_i hchk
          obtain ⟨hm, hk, hall⟩ := ih r1 (n + 1) m kfs h
          refine ⟨by simp [hm]; omega, hk, ?_⟩
          intro i h0
          cases i with
          | zero =>
            exact ⟨by simp, agree_of_checks (by simpa using hop) hchk⟩
          | succ j =>
            obtain ⟨h1, ha⟩ := hall j (by simpa using h0)
            exact ⟨by simpa using h1, by simpa using ha⟩
        · cases h

/-- **C20.**  If the comparator accepts the log of a `clear()` script, then (1) the last `@pre` call of
instance 0 — the `clear()` — left `size() = 0`, `empty() = true` and an empty sweep; (2) all `n` continuation calls
of instance 0 were compared and no known finding was used; (3) for every position `i` of the continuation, the
`i`-th call on the cleared container and the `i`-th (non-`@pre`) call on the freshly constructed container are
the same call, returned the same and left the same `size()`, `empty()`, `capacity()` and sweep: on what was
observed, a cleared container answers every later call exactly as a new one does. -/
theorem c20_observed {evs : List Event} {n : Nat} {kfs : List String} (h : c20 evs = .ok n kfs) :
    (∃ c, (pre0 evs).getLast? = some c ∧ c.obs.size = 0 ∧ c.obs.empty = true ∧ c.obs.sweep = []) ∧
    n = (cont0 evs).length ∧ kfs = [] ∧
    ∀ i (h0 : i < (cont0 evs).length), ∃ h1 : i < (fresh1 evs).length,
      Agree (cont0 evs)[i] (fresh1 evs)[i] := by
  unfold c20 at h
  simp only [] at h
  split at h
  · rename_i c hc
    split at h
    · cases h
    · rename_i hz
      simp only [Bool.or_eq_true, not_or, Bool.not_eq_true, bne_eq_false_iff_eq, Bool.not_eq_eq_eq_not] at hz
      obtain ⟨hm, hk, hall⟩ := c20Loop_ok _ _ _ _ _ h
      refine ⟨⟨c, hc, ?_, ?_, ?_⟩, by simpa [cont0] using hm, hk, hall⟩
      · exact hz.1.1
      · simpa using hz.1.2
      · simpa using hz.2
  · cases h

/-! ## C19 (containers without TTL): no-effect calls spliced into instance 1 -/

/-- the calls of instance 1 that instance 0 shares: the spliced calls (tag `@x`) dropped; the list ends at the
first spliced call that, judged by its own result (`noEffect`), did change the container — from there on the two
containers may legitimately differ and nothing is compared -/
def shared : List Event → List Event
  | [] => []
  | e :: r => if e.tag == "@x" then (if noEffect e then shared r else []) else e :: shared r

/-- some spliced call did, by its own result, have an effect -/
def EffectiveSplice (l1 : List Event) : Prop := ∃ e ∈ l1, e.tag = "@x" ∧ noEffect e = false

theorem shared_eq_filter : ∀ (l1 : List Event), (∀ e ∈ l1, e.tag = "@x" → noEffect e = true) →
    shared l1 = l1.filter (fun e => e.tag != "@x")
  | [], _ => rfl
  | e :: r, h => by
    have ih := shared_eq_filter r (fun e he => h e (List.mem_cons_of_mem _ he))
    by_cases ht : e.tag = "@x"
    · simp [shared, ht, h e (List.mem_cons_self) ht, ih]
    · simp [shared, ht, ih]

theorem c19Loop_ok (kind : Kind) (hk : isTtl kind = false) :
    ∀ (fuel n : Nat) (kf : List String) (l0 l1 : List Event) (m : Nat) (kfs : List String),
    l0.length + l1.length ≤ fuel →
    c19Loop kind fuel n kf l0 l1 = .ok m kfs →
    ∃ k, m = n + k ∧ kfs = kf ∧ k ≤ l0.length ∧
      (∀ i (h0 : i < l0.length), i < k → ∃ h1 : i < (shared l1).length, Agree l0[i] (shared l1)[i]) ∧
      (k = l0.length ∨ (k = (shared l1).length ∧ EffectiveSplice l1)) := by
  intro fuel
  induction fuel with
  | zero =>
    intro n kf l0 l1 m kfs hf h
    have h0 : l0 = [] := by
      cases l0 with
      | nil => rfl
      | cons _ _ => simp at hf
    subst h0
    simp only [c19Loop, Verdict.ok.injEq] at h
    exact ⟨0, by simp [h.1], h.2.symm, by simp, by intro i h0; simp at h0, Or.inl rfl⟩
  | succ fuel ih =>
    intro n kf l0 l1 m kfs hf h
    cases l0 with
    | nil =>
      simp only [c19Loop, Verdict.ok.injEq] at h
      exact ⟨0, by simp [h.1], h.2.symm, by simp, by intro i h0; simp at h0, Or.inl rfl⟩
    | cons e0 r0 =>
      cases l1 with
      | nil => simp [c19Loop] at h
      | cons e1 r1 =>
        simp only [c19Loop] at h
        split at h
        · rename_i hx
          split at h
          · rename_i hne
            obtain ⟨k, hm, hkf, hle, hall, hend⟩ :=
              ih n kf (e0 :: r0) r1 m kfs (by simp at hf ⊢; omega) h
            have hs : shared (e1 :: r1) = shared r1 := by simp [shared, hx, hne]
            refine ⟨k, hm, hkf, hle, ?_, ?_⟩
            · rw [hs]; exact hall
            · rw [hs]
              rcases hend with h1 | ⟨h1, e, he, hte⟩
              · exact Or.inl h1
              · exact Or.inr ⟨h1, e, List.mem_cons_of_mem _ he, hte⟩
          · rename_i hne
            simp only [Verdict.ok.injEq] at h
            have hs : shared (e1 :: r1) = [] := by simp [shared, hx, hne]
            refine ⟨0, by simp [h.1], h.2.symm, by simp, by intro i _ hi; omega, Or.inr ⟨by simp [hs], ?_⟩⟩
            exact ⟨e1, List.mem_cons_self, by simpa using hx, by simpa using hne⟩
        · rename_i hx
          split at h
          · cases h
          · rename_i hop
            simp only [hk, Bool.not_false, if_true] at h
            split at h
            · rename_i hchk
              obtain ⟨k, hm, hkf, hle, hall, hend⟩ :=
                ih (n + 1) kf r0 r1 m kfs (by simp at hf ⊢; omega) h
              have hs : shared (e1 :: r1) = e1 :: shared r1 := by simp [shared, hx]
              refine ⟨k + 1, by omega, hkf, by simp; omega, ?_, ?_⟩
              · intro i h0 hi
                rw [hs]
                cases i with
                | zero => exact ⟨by simp, agree_of_checks (by simpa using hop) hchk⟩
                | succ j =>
                  obtain ⟨h1, ha⟩ := hall j (by simpa using h0) (by omega)
                  exact ⟨by simpa using h1, by simpa using ha⟩
              · rw [hs]
                rcases hend with h1 | ⟨h1, e, he, hte⟩
                · exact Or.inl (by simp [h1])
                · exact Or.inr ⟨by simp [h1], e, List.mem_cons_of_mem _ he, hte⟩
            · cases h

/-- the events of one instance -/
def inst (i : Nat) (evs : List Event) : List Event := evs.filter (·.inst == i)

theorem inst_lengths (evs : List Event) : (inst 0 evs).length + (inst 1 evs).length ≤ evs.length := by
  induction evs with
  | nil => simp [inst]
  | cons e r ih =>
    simp only [inst, List.filter_cons] at ih ⊢
    by_cases h0 : e.inst = 0
    · simp [h0]; omega
    · by_cases h1 : e.inst = 1
      · simp [h1]; omega
      · simp [h0, h1]; omega

/-- **C19, containers without TTL** (lru, mru, fifo, lfu, lfuda, rr).  Instance 1 received the calls of
instance 0 plus spliced calls (tag `@x`) chosen so as to have no effect (`find`/`find_range` with `peek`, a `find`
that misses, an `insert`/`erase` that returns `false`).  If the comparator accepts with `n` compared calls, then
the fuel it was given sufficed and: no known finding was used; `n` is at most the number of calls of instance 0;
each of the first `n` calls of instance 0 and the call at the same position of `shared (inst 1 evs)` — instance 1
without its spliced calls — are the same call, returned the same and left the same `size()`, `empty()`,
`capacity()` and sweep; and either every call of instance 0 was compared, or the comparison stopped exactly where
`shared` stops: at a spliced call whose own result shows that it did have an effect. -/
theorem c19_observed {kind : Kind} (hk : isTtl kind = false) {evs : List Event} {n : Nat} {kfs : List String}
    (h : c19 kind evs = .ok n kfs) :
    kfs = [] ∧ n ≤ (inst 0 evs).length ∧
    (∀ i (h0 : i < (inst 0 evs).length), i < n →
      ∃ h1 : i < (shared (inst 1 evs)).length, Agree (inst 0 evs)[i] (shared (inst 1 evs))[i]) ∧
    (n = (inst 0 evs).length ∨ (n = (shared (inst 1 evs)).length ∧ EffectiveSplice (inst 1 evs))) := by
  have hl := inst_lengths evs
  obtain ⟨k, hm, hkf, hle, hall, hend⟩ :=
    c19Loop_ok kind hk _ 0 [] (inst 0 evs) (inst 1 evs) n kfs (by omega) h
  have hnk : n = k := by omega
  subst hnk
  exact ⟨hkf, hle, hall, hend⟩

/-- **C19, the case the generator aims for**: if moreover every spliced call of instance 1 has, by its own result,
no effect, then every call of instance 0 was compared, and the calls of instance 1 other than the spliced ones are,
position by position, the same calls with the same results and observers — the spliced `find`s, refused `insert`s
and failed `erase`s changed nothing that any later call or observer shows. -/
theorem c19_observed_all {kind : Kind} (hk : isTtl kind = false) {evs : List Event} {n : Nat} {kfs : List String}
    (h : c19 kind evs = .ok n kfs)
    (hx : ∀ e ∈ inst 1 evs, e.tag = "@x" → noEffect e = true) :
    kfs = [] ∧ n = (inst 0 evs).length ∧
    ∀ i (h0 : i < (inst 0 evs).length),
      ∃ h1 : i < ((inst 1 evs).filter (fun e => e.tag != "@x")).length,
        Agree (inst 0 evs)[i] ((inst 1 evs).filter (fun e => e.tag != "@x"))[i] := by
  obtain ⟨hkf, hle, hall, hend⟩ := c19_observed hk h
  have hn : n = (inst 0 evs).length := by
    rcases hend with h1 | ⟨_, e, he, ht, hne⟩
    · exact h1
    · rw [hx e he ht] at hne; cases hne
  refine ⟨hkf, hn, ?_⟩
  intro i h0
  have := hall i h0 (by omega)
  simpa only [shared_eq_filter _ hx] using this

/-! ## C18 (containers other than ut_map / ut_set): a range call versus the same elements as single calls -/

/-- the alignment the C18 comparator walks: a call of instance 0 tagged `@g<n>` is a range call
(`insert_range`, `erase_range`, `find_range`) whose result is the `aggregate` of the single calls of instance 1
carrying the same tag (number of `true`s, resp. the list of the `find` results) and, when that group is not empty,
the observers after the range call are those after the group's last single call; any other call of instance 0
faces the same call on instance 1, with the same result and observers -/
def RangeAgree : List Event → List Event → Prop
  | [], _ => True
  | e0 :: r0, l1 =>
    if e0.tag.startsWith "@g" then
      aggregate e0.op (l1.takeWhile (fun e => e.tag == e0.tag)) = some e0.out ∧
      (∀ last, (l1.takeWhile (fun e => e.tag == e0.tag)).getLast? = some last → last.obs = e0.obs) ∧
      RangeAgree r0 (l1.dropWhile (fun e => e.tag == e0.tag))
    else ∃ e1 r1, l1 = e1 :: r1 ∧ Agree e0 e1 ∧ RangeAgree r0 r1

theorem rangeAgree_group {e0 : Event} {r0 l1 : List Event} (hg : e0.tag.startsWith "@g" = true) :
    RangeAgree (e0 :: r0) l1 ↔
      aggregate e0.op (l1.takeWhile (fun e => e.tag == e0.tag)) = some e0.out ∧
      (∀ last, (l1.takeWhile (fun e => e.tag == e0.tag)).getLast? = some last → last.obs = e0.obs) ∧
      RangeAgree r0 (l1.dropWhile (fun e => e.tag == e0.tag)) := by
  simp [RangeAgree, hg]

theorem rangeAgree_plain {e0 : Event} {r0 l1 : List Event} (hg : e0.tag.startsWith "@g" = false) :
    RangeAgree (e0 :: r0) l1 ↔ ∃ e1 r1, l1 = e1 :: r1 ∧ Agree e0 e1 ∧ RangeAgree r0 r1 := by
  simp [RangeAgree, hg]

theorem c18Loop_ok (kind : Kind) (hk : isEager kind = false) :
    ∀ (l0 l1 : List Event) (fuel n : Nat) (kf : List String) (m : Nat) (kfs : List String),
    l0.length ≤ fuel →
    c18Loop kind fuel n kf l0 l1 = .ok m kfs →
    m = n + l0.length ∧ kfs = kf ∧ RangeAgree l0 l1 := by
  intro l0
  induction l0 with
  | nil =>
    intro l1 fuel n kf m kfs _ h
    simp only [c18Loop, Verdict.ok.injEq] at h
    exact ⟨by simp [h.1], h.2.symm, trivial⟩
  | cons e0 r0 ih =>
    intro l1 fuel n kf m kfs hf h
    cases fuel with
    | zero => simp at hf
    | succ fuel =>
      have hf' : r0.length ≤ fuel := by simp at hf; omega
      simp only [c18Loop] at h
      split at h
      · rename_i hg
        rw [rangeAgree_group hg]
        split at h
        · cases h
        · rename_i agg hagg
          split at h
          · cases h
          · rename_i hne
            have hout : agg = e0.out := by simpa using hne
            split at h
            · rename_i hlast
              obtain ⟨hm, hkf, hr⟩ := ih _ _ _ _ _ _ hf' h
              refine ⟨by simp; omega, hkf, by rw [hagg, hout], ?_, hr⟩
              intro last hl; rw [hlast] at hl; cases hl
            · rename_i last hlast
              split at h
              · rename_i hobs
                obtain ⟨hm, hkf, hr⟩ := ih _ _ _ _ _ _ hf' h
                refine ⟨by simp; omega, hkf, by rw [hagg, hout], ?_, hr⟩
                intro last' hl; rw [hlast] at hl; cases hl
                simpa [sameObs] using hobs
              · simp [hk] at h
      · rename_i hg
        rw [rangeAgree_plain (by simpa using hg)]
        split at h
        · cases h
        · rename_i e1 r1
          split at h
          · cases h
          · rename_i hop
            split at h
            · rename_i hchk
              obtain ⟨hm, hkf, hr⟩ := ih _ _ _ _ _ _ hf' h
              exact ⟨by simp; omega, hkf, e1, r1, rfl, agree_of_checks (by simpa using hop) hchk, hr⟩
            · simp [hk] at h

/-- **C18, containers other than ut_map / ut_set.**  Instance 0 received range calls (tag `@g<n>`), instance 1 the
same elements as single `insert`/`erase`/`find` calls carrying the same tag.  If the comparator accepts, all `n`
calls of instance 0 were compared, no known finding was used, and (`RangeAgree`, unfolded by `rangeAgree_group` and
`rangeAgree_plain`) every range call returned the aggregate of its single calls — the number of single calls that
returned `true`, resp. the list of the single `find` results — and, if the range was not empty, left the `size()`,
`empty()`, `capacity()` and sweep that the last single call left; every other call agrees with its counterpart in
call, result and observers. -/
theorem c18_observed {kind : Kind} (hk : isEager kind = false) {evs : List Event} {n : Nat} {kfs : List String}
    (h : c18 kind evs = .ok n kfs) :
    n = (inst 0 evs).length ∧ kfs = [] ∧ RangeAgree (inst 0 evs) (inst 1 evs) := by
  have hl : (inst 0 evs).length ≤ evs.length + 1 :=
    Nat.le_succ_of_le (List.length_filter_le _ _)
  obtain ⟨hm, hkf, hr⟩ := c18Loop_ok kind hk (inst 0 evs) (inst 1 evs) _ 0 [] n kfs hl h
  exact ⟨by omega, hkf, hr⟩

/-! ## non-vacuity -/

/-- a two-instance log: instance 0 inserts `1 ↦ 1`, calls `clear()`, inserts `2 ↦ 5`; instance 1, fresh,
inserts `2 ↦ 5` -/
def logC20 : List Event :=
  [ { inst := 0, now := 0, tag := "@pre", op := .insert 1 1 .insertOrUpdate 0, out := .bool true,
      obs := { size := 1, empty := false, cap := 2, sweep := [(1, 1, 0)] } },
    { inst := 0, now := 0, tag := "@pre", op := .clear, out := .unit,
      obs := { size := 0, empty := true, cap := 2, sweep := [] } },
    { inst := 0, now := 0, tag := "@", op := .insert 2 5 .insertOrUpdate 0, out := .bool true,
      obs := { size := 1, empty := false, cap := 2, sweep := [(2, 5, 0)] } },
    { inst := 1, now := 0, tag := "@", op := .insert 2 5 .insertOrUpdate 0, out := .bool true,
      obs := { size := 1, empty := false, cap := 2, sweep := [(2, 5, 0)] } } ]

theorem logC20_ok : c20 logC20 = .ok 1 [] := by rfl

example : ∀ i (_ : i < (cont0 logC20).length), ∃ h1 : i < (fresh1 logC20).length,
    Agree (cont0 logC20)[i] (fresh1 logC20)[i] :=
  (c20_observed logC20_ok).2.2.2

/-- instance 0 inserts `1 ↦ 1`; instance 1 first gets a spliced peeking `find(9)` (a miss), then the insert -/
def logC19 : List Event :=
  [ { inst := 0, now := 0, tag := "@", op := .insert 1 1 .insertOrUpdate 0, out := .bool true,
      obs := { size := 1, empty := false, cap := 2, sweep := [(1, 1, 0)] } },
    { inst := 1, now := 0, tag := "@x", op := .find 9 true, out := .opt none,
      obs := { size := 0, empty := true, cap := 2, sweep := [] } },
    { inst := 1, now := 0, tag := "@", op := .insert 1 1 .insertOrUpdate 0, out := .bool true,
      obs := { size := 1, empty := false, cap := 2, sweep := [(1, 1, 0)] } } ]

theorem logC19_ok : c19 .lru logC19 = .ok 1 [] := by rfl

example : ∀ i (_ : i < (inst 0 logC19).length), i < 1 →
    ∃ h1 : i < (shared (inst 1 logC19)).length, Agree (inst 0 logC19)[i] (shared (inst 1 logC19))[i] :=
  (c19_observed (kind := .lru) rfl logC19_ok).2.2.1

#print axioms c20_observed
#print axioms c19_observed
#print axioms c19_observed_all
#print axioms c18_observed
#print axioms logC20_ok
#print axioms logC19_ok

end Verif.CapstoneTwin
