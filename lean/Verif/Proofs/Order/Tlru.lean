import Verif.Spec.Order
import Verif.Proofs.Refine.Tlru
/-!
# C10 (tlru_cache, utlru_cache: LRU victim when nothing has expired) and C16 (expired-first eviction)
-/
namespace Verif
open Verif.Spec

/-- **C10, tlru_cache**: no resident entry has expired ⇒ the victim is the least recently used one. -/
theorem C10_tlru (cap : Nat) (hcap : 0 < cap) {tr : STrace TlruState} {s s' : TlruState}
    {now : Time} {k : Key} {v : Val} {al : Allow} {d : Time}
    (hrun : CRun Tlru.core (Tlru.init cap) tr s)
    (hstep : CStep Tlru.core s now (.ins k v al d true) s')
    (hnew : k ∉ keys s.ents) (hfull : cap ≤ s.ents.length)
    (hlive : ∀ e ∈ s.ents, now < e.dl) :
    ∃ w, firstIn (useOrder tr) (keys s.ents) = some w ∧ Evicts (keys s.ents) (keys s'.ents) k w := by
  sorry

/-- **C10, utlru_cache.** -/
theorem C10_utlru (cap : Nat) (hcap : 0 < cap) (ttlMs : Nat) {tr : STrace TlruState} {s s' : TlruState}
    {now : Time} {k : Key} {v : Val} {al : Allow} {d : Time}
    (hrun : CRun Utlru.core (Utlru.init cap ttlMs) tr s)
    (hstep : CStep Utlru.core s now (.ins k v al d true) s')
    (hnew : k ∉ keys s.ents) (hfull : cap ≤ s.ents.length)
    (hlive : ∀ e ∈ s.ents, now < e.dl) :
    ∃ w, firstIn (useOrder tr) (keys s.ents) = some w ∧ Evicts (keys s.ents) (keys s'.ents) k w := by
  sorry

/-- **C16, tlru_cache**: some resident entry has expired ⇒ the entry removed is an expired one, and
(by `Evicts`) every other resident entry, in particular every live one, is kept. -/
theorem C16_tlru (cap : Nat) (hcap : 0 < cap) {tr : STrace TlruState} {s s' : TlruState}
    {now : Time} {k : Key} {v : Val} {al : Allow} {d : Time}
    (hrun : CRun Tlru.core (Tlru.init cap) tr s)
    (hstep : CStep Tlru.core s now (.ins k v al d true) s')
    (hnew : k ∉ keys s.ents) (hfull : cap ≤ s.ents.length)
    (hexp : ∃ e ∈ s.ents, e.dl ≤ now) :
    ∃ w e, getE s.ents w = some e ∧ e.dl ≤ now ∧ Evicts (keys s.ents) (keys s'.ents) k w ∧
      ∀ u e', getE s.ents u = some e' → now < e'.dl → getE s'.ents u = some e' := by
  sorry

/-- **C16, utlru_cache** (any sequence of `update_ttl` calls before). -/
theorem C16_utlru (cap : Nat) (hcap : 0 < cap) (ttlMs : Nat) {tr : STrace TlruState} {s s' : TlruState}
    {now : Time} {k : Key} {v : Val} {al : Allow} {d : Time}
    (hrun : CRun Utlru.core (Utlru.init cap ttlMs) tr s)
    (hstep : CStep Utlru.core s now (.ins k v al d true) s')
    (hnew : k ∉ keys s.ents) (hfull : cap ≤ s.ents.length)
    (hexp : ∃ e ∈ s.ents, e.dl ≤ now) :
    ∃ w e, getE s.ents w = some e ∧ e.dl ≤ now ∧ Evicts (keys s.ents) (keys s'.ents) k w ∧
      ∀ u e', getE s.ents u = some e' → now < e'.dl → getE s'.ents u = some e' := by
  sorry

end Verif
