import Verif.Spec.Order
import Verif.Proofs.Refine.Tlru
/-!
# C10 (tlru_cache, utlru_cache: LRU victim when nothing has expired) and C16 (expired-first eviction)
-/
namespace Verif
open Verif.Spec

/-! ## list facts: a resident key list that is the ghost order restricted to the residents -/

namespace OrdL

/-- restricting the resident keys keeps them the ghost order restricted to the residents -/
theorem filter {g K : List Key} (h : K = g.filter (fun x => decide (x ∈ K))) (p : Key → Bool) :
    K.filter p = g.filter (fun x => decide (x ∈ K.filter p)) := by
  have e : (fun x => decide (x ∈ K.filter p)) = (fun x => p x && decide (x ∈ K)) := by
    funext x
    by_cases h1 : x ∈ K <;> by_cases h2 : p x = true <;> simp [List.mem_filter, h1, h2]
  rw [e, ← List.filter_filter, ← h]

theorem drop {g K : List Key} (h : K = g.filter (fun x => decide (x ∈ K))) (k : Key) :
    dropKey K k = (dropKey g k).filter (fun x => decide (x ∈ dropKey K k)) := by
  have h1 := filter h (fun x => !decide (x = k))
  show K.filter _ = (g.filter _).filter _
  rw [List.filter_filter]
  refine h1.trans (List.filter_congr ?_)
  intro x _
  show decide (x ∈ dropKey K k) = (decide (x ∈ dropKey K k) && !decide (x = k))
  by_cases hx : x = k
  · subst hx; simp [dropKey]
  · simp [hx]

theorem touch {g K : List Key} (h : K = g.filter (fun x => decide (x ∈ K))) (k : Key) :
    dropKey K k ++ [k] =
      (dropKey g k ++ [k]).filter (fun x => decide (x ∈ dropKey K k ++ [k])) := by
  rw [List.filter_append]
  have e1 : [k].filter (fun x => decide (x ∈ dropKey K k ++ [k])) = [k] := by simp
  have e2 : (dropKey g k).filter (fun x => decide (x ∈ dropKey K k ++ [k])) =
      (dropKey g k).filter (fun x => decide (x ∈ dropKey K k)) := by
    apply List.filter_congr
    intro x hx
    have hne : x ≠ k := by
      have := (List.mem_filter.mp hx).2
      simpa using this
    simp [hne]
  rw [e1, e2, ← drop h k]

theorem filter_tt (K : List Key) : K.filter (fun _ => true) = K :=
  List.filter_eq_self.mpr (fun _ _ => rfl)

theorem dropKey_of_not_mem {K : List Key} {k : Key} (h : k ∉ K) : dropKey K k = K := by
  unfold dropKey
  rw [List.filter_eq_self]
  intro a ha
  have : a ≠ k := fun e => h (e ▸ ha)
  simp [this]

end OrdL

theorem CStep.ins_inv {σ : Type} {c : Core σ} {s s' : σ} {now : Time} {k : Key} {v : Val}
    {al : Allow} {d : Time} {ok : Bool} (h : CStep c s now (.ins k v al d ok) s') :
    ∃ ttl, d = c.dlOf s now ttl ∧ ok = (c.insert1 s now k v al ttl).2 ∧
      s' = (c.insert1 s now k v al ttl).1 := by
  generalize hx : Atom.ins k v al d ok = x at h
  cases h <;> cases hx
  exact ⟨_, rfl, rfl, rfl⟩

namespace Tlru

theorem getE_of_mem_nodup {l : List Entry} (hn : (keys l).Nodup) {e : Entry} (he : e ∈ l) :
    getE l e.key = some e := by
  induction l with
  | nil => cases he
  | cons a t ih =>
    simp only [keys, List.map_cons, List.nodup_cons] at hn
    rw [getE_cons]
    rcases List.mem_cons.mp he with rfl | het
    · simp
    · have hne : ¬ a.key = e.key := by
        intro hh
        exact hn.1 (hh ▸ List.mem_map_of_mem (f := (·.key)) het)
      rw [if_neg hne]
      exact ih hn.2 het

/-- some resident entry has expired ⇒ `prune` removes an expired one -/
theorem prune_expired {cap : Nat} {s : TlruState} (h : Inv cap s) {now : Time}
    (hexp : ∃ e ∈ s.ents, e.dl ≤ now) :
    ∃ w e, getE s.ents w = some e ∧ e.dl ≤ now ∧ prune s now = removeKey s w := by
  obtain ⟨e, he, hd⟩ := hexp
  have hg := getE_of_mem_nodup h.nodup he
  have hm : (e.dl, e.key) ∈ s.tq := (h.tq_iff e.dl e.key).mpr ⟨e, hg, rfl⟩
  have hs := h.sorted
  have hti := h.tq_iff
  unfold prune
  cases htq : s.tq with
  | nil => rw [htq] at hm; cases hm
  | cons x rest =>
    obtain ⟨d0, k0⟩ := x
    rw [htq] at hm hs
    rw [List.pairwise_cons] at hs
    have hd0 : d0 ≤ now := by
      rcases List.mem_cons.mp hm with heq | hm'
      · have : e.dl = d0 := (Prod.mk.inj heq).1
        exact this ▸ hd
      · exact Nat.le_trans (hs.1 _ hm') hd
    obtain ⟨e0, hg0, hdl0⟩ := (hti d0 k0).mp (by rw [htq]; exact List.mem_cons_self ..)
    simp only [hd0, if_true]
    exact ⟨k0, e0, hg0, hdl0 ▸ hd0, rfl⟩

/-- no resident entry has expired ⇒ `prune` removes the least recently used one -/
theorem prune_live {cap : Nat} {s : TlruState} (h : Inv cap s) {now : Time} {e0 : Entry}
    {t : List Entry} (hents : s.ents = e0 :: t) (hlive : ∀ e ∈ s.ents, now < e.dl) :
    prune s now = removeKey s e0.key := by
  have hne : s.ents ≠ [] := by rw [hents]; exact List.cons_ne_nil _ _
  have htq := h.cons.tq_ne_nil hne
  have hti := h.tq_iff
  unfold prune
  cases htq' : s.tq with
  | nil => exact absurd htq' htq
  | cons x rest =>
    obtain ⟨d0, k0⟩ := x
    obtain ⟨e, hg, hdl⟩ := (hti d0 k0).mp (by rw [htq']; exact List.mem_cons_self ..)
    have hlt : now < d0 := hdl ▸ hlive e (getE_mem hg)
    have hnd : ¬ d0 ≤ now := Nat.not_le.mpr hlt
    simp only [hnd, if_false, hents]

/-- the resident keys after `do_insert_update`, for an arbitrary deadline -/
theorem insert1_keys {cap : Nat} {s : TlruState} (h : Inv cap s) (now : Time) (k : Key) (v : Val)
    (a : Allow) (d : Time) :
    ((insert1 s now k v a d).2 = false ∧ (insert1 s now k v a d).1 = s) ∨
    ((insert1 s now k v a d).2 = true ∧ ∃ p : Key → Bool,
      keys (insert1 s now k v a d).1.ents = dropKey ((keys s.ents).filter p) k ++ [k]) := by
  have hupd : ∀ e, getE s.ents k = some e →
      keys (update s e v d).ents = dropKey ((keys s.ents).filter (fun _ => true)) k ++ [k] := by
    intro e hg
    have hek := getE_key hg
    rw [OrdL.filter_tt]
    simp only [update, keys_append, keys_delE, hek]
    simp [keys, dropKey]
  cases hg : getE s.ents k with
  | some e =>
    simp only [insert1, hg]
    by_cases hu : a.upd = true
    · rw [if_pos hu]
      exact Or.inr ⟨rfl, _, hupd e hg⟩
    · rw [if_neg hu]
      by_cases hi : a.ins = true
      · rw [if_pos hi]
        by_cases hd : e.dl ≤ now
        · rw [if_pos hd]
          exact Or.inr ⟨rfl, _, hupd e hg⟩
        · rw [if_neg hd]
          exact Or.inl ⟨rfl, rfl⟩
      · rw [if_neg hi]
        exact Or.inl ⟨rfl, rfl⟩
  | none =>
    have hk : k ∉ keys s.ents := getE_eq_none_iff.mp hg
    simp only [insert1, hg]
    by_cases hi : a.ins = true
    · rw [if_pos hi]
      refine Or.inr ⟨rfl, ?_⟩
      by_cases hfull : s.ents.length ≥ s.cap
      · have hne : s.ents ≠ [] := by
          intro h0; rw [h0] at hfull; simp at hfull; have := h.cap_pos; have := h.cap_eq; omega
        obtain ⟨w, ew, hw, hpr⟩ := prune_spec h hne now
        refine ⟨fun x => !decide (x = w), ?_⟩
        simp only [hfull, if_true, hpr, removeKey, keys_append, keys_delE]
        rw [OrdL.dropKey_of_not_mem (fun hm => hk (List.mem_filter.mp hm).1)]
        simp [keys]
      · refine ⟨fun _ => true, ?_⟩
        simp only [hfull, if_false, keys_append]
        rw [OrdL.filter_tt, OrdL.dropKey_of_not_mem hk]
        simp [keys]
    · rw [if_neg hi]
      exact Or.inl ⟨rfl, rfl⟩

theorem find1_keys (s : TlruState) (now : Time) (k : Key) (peek : Bool) :
    ((find1 s now k peek).1 = s ∧ (peek = true ∨ (find1 s now k peek).2 = none)) ∨
    ((∃ r, (find1 s now k peek).2 = some r) ∧ peek = false ∧
      keys (find1 s now k peek).1.ents = dropKey (keys s.ents) k ++ [k]) ∨
    ((find1 s now k peek).2 = none ∧
      keys (find1 s now k peek).1.ents = (keys s.ents).filter (fun x => !decide (x = k))) := by
  cases hg : getE s.ents k with
  | none => simp only [find1, hg]; exact Or.inl ⟨trivial, Or.inr trivial⟩
  | some e =>
    have hek := getE_key hg
    simp only [find1, hg]
    by_cases hd : now < e.dl
    · simp only [hd, if_true]
      cases peek with
      | true => exact Or.inl ⟨by simp, Or.inl rfl⟩
      | false =>
        refine Or.inr (Or.inl ⟨⟨_, rfl⟩, rfl, ?_⟩)
        simp only [Bool.false_eq_true, if_false, keys_append, keys_delE]
        simp [keys, dropKey, hek]
    · simp only [hd, if_false]
      exact Or.inr (Or.inr ⟨trivial, by simp only [removeKey, keys_delE]⟩)

theorem foldl_removeKey_keys (ks : List Key) : ∀ s : TlruState,
    ∃ p : Key → Bool, keys (ks.foldl removeKey s).ents = (keys s.ents).filter p := by
  induction ks with
  | nil => intro s; exact ⟨fun _ => true, (OrdL.filter_tt _).symm⟩
  | cons k ks ih =>
    intro s
    obtain ⟨p, hp⟩ := ih (removeKey s k)
    refine ⟨fun a => p a && !decide (a = k), ?_⟩
    rw [List.foldl_cons, hp]
    show (keys (delE s.ents k)).filter p = _
    rw [keys_delE, List.filter_filter]

/-- what the two cores share -/
structure Like (c : Core TlruState) : Prop where
  pre : ∀ s now, c.pre s now = s
  ins : ∀ s now k v a ttl, c.insert1 s now k v a ttl = insert1 s now k v a (c.dlOf s now ttl)
  find : ∀ s now k p, c.find1 s now k p = find1 s now k p
  erase : ∀ s k, c.erase1 s k = erase1 s k
  clean : ∀ s now, c.clean s now = clean s now
  age : ∀ s now, (c.age s now).1 = s
  ttl : ∀ s t, (c.updateTtl s t).ents = s.ents
  clear : c.hasClear = true → ∀ s, (c.clear s).ents = []

theorem like_tlru : Like core where
  pre _ _ := rfl
  ins _ _ _ _ _ _ := rfl
  find _ _ _ _ := rfl
  erase _ _ := rfl
  clean _ _ := rfl
  age _ _ := rfl
  ttl _ _ := rfl
  clear h := by simp [core] at h

theorem like_utlru : Like Utlru.core where
  pre _ _ := rfl
  ins _ _ _ _ _ _ := rfl
  find _ _ _ _ := rfl
  erase _ _ := rfl
  clean _ _ := rfl
  age _ _ := rfl
  ttl _ _ := rfl
  clear _ _ := rfl

/-- every atom keeps the resident list equal to the ghost use order restricted to the residents -/
theorem ord_step {c : Core TlruState} (L : Like c) {cap : Nat} {g : List Key} {s s' : TlruState}
    {now : Time} {x : Atom} (hi : Inv cap s)
    (ho : keys s.ents = g.filter (fun y => decide (y ∈ keys s.ents)))
    (hs : CStep c s now x s') :
    keys s'.ents = (useStep g x).filter (fun y => decide (y ∈ keys s'.ents)) := by
  cases hs with
  | pre => rw [L.pre]; exact ho
  | ins k v a ttl =>
    rw [L.ins]
    generalize c.dlOf s now ttl = d
    rcases insert1_keys hi now k v a d with ⟨h1, h2⟩ | ⟨h1, p, h2⟩
    · rw [h1, h2]; exact ho
    · rw [h1, h2]
      exact OrdL.touch (OrdL.filter ho p) k
  | look k peek =>
    rw [L.find]
    rcases find1_keys s now k peek with ⟨h1, h2⟩ | ⟨⟨r, h1⟩, h2, h3⟩ | ⟨h1, h2⟩
    · rw [h1]
      rcases h2 with h2 | h2
      · subst h2
        cases (find1 s now k true).2 <;> exact ho
      · rw [h2]; cases peek <;> exact ho
    · subst h2
      rw [h1, h3]
      exact OrdL.touch ho k
    · rw [h1, h2]
      have := OrdL.filter ho (fun x => !decide (x = k))
      cases peek <;> exact this
  | del k =>
    rw [L.erase]
    cases hg : getE s.ents k with
    | none => simp only [erase1, hg]; exact ho
    | some e =>
      simp only [erase1, hg, removeKey, keys_delE]
      exact OrdL.drop ho k
  | clear hc => rw [L.clear hc]; simp [keys]
  | reap =>
    rw [L.clean]
    obtain ⟨p, hp⟩ := foldl_removeKey_keys (cleanLoop now s.tq) s
    have := OrdL.filter ho p
    rw [← hp] at this
    exact this
  | age => rw [L.age]; exact ho
  | setTtl t => rw [L.ttl]; exact ho
  | obsSize => exact ho
  | obsEmpty => exact ho
  | obsCap => exact ho

theorem useOrder_snoc (p : STrace TlruState) (y : TlruState × Time × Atom) :
    useOrder (p ++ [y]) = useStep (useOrder p) y.2.2 := by
  simp [useOrder, List.foldl_append]

/-- along every run: the refinement invariant, and the recency order is the ghost use order -/
theorem run_inv {c : Core TlruState} (L : Like c) {cap : Nat}
    (R : Refines c .lazy cap (fun _ => Inv cap) abs) {s0 s : TlruState} {tr : STrace TlruState}
    (h0 : Inv cap s0) (he : s0.ents = []) (hr : CRun c s0 tr s) :
    Inv cap s ∧ keys s.ents = (useOrder tr).filter (fun y => decide (y ∈ keys s.ents)) := by
  have := CRun.invariant (c := c)
    (P := fun p s => Inv cap s ∧ keys s.ents = (useOrder p).filter (fun y => decide (y ∈ keys s.ents)))
    (pre := []) (by
      intro p s now x s' hP hs
      refine ⟨(R.cstep hP.1 hs).1, ?_⟩
      rw [useOrder_snoc]
      exact ord_step L hP.1 hP.2 hs)
    ⟨h0, by simp [he, keys, useOrder]⟩ hr
  simpa using this

/-- a creating insert into a full cache: the entries afterwards -/
theorem insert1_full {cap : Nat} {s : TlruState} (h : Inv cap s) {now : Time} {k : Key} {v : Val}
    {a : Allow} {d : Time} (hnew : k ∉ keys s.ents) (hfull : cap ≤ s.ents.length)
    (hok : (insert1 s now k v a d).2 = true) :
    (insert1 s now k v a d).1.ents = (prune s now).ents ++ [{ key := k, val := v, dl := d }] := by
  have hg : getE s.ents k = none := getE_eq_none_iff.mpr hnew
  have hfull' : s.ents.length ≥ s.cap := by rw [h.cap_eq]; exact hfull
  simp only [insert1, hg] at hok ⊢
  by_cases hi : a.ins = true
  · simp only [hi, if_true, hfull']
  · simp [hi] at hok

theorem evicts_of_remove {s : TlruState} {k w : Key} {e : Entry} {x : Entry} (hx : x.key = k)
    (hnew : k ∉ keys s.ents) (hw : getE s.ents w = some e) :
    Evicts (keys s.ents) (keys ((removeKey s w).ents ++ [x])) k w := by
  have hwm : w ∈ keys s.ents := getE_isSome_iff.mp (by simp [hw])
  have hwk : w ≠ k := fun hh => hnew (hh ▸ hwm)
  refine ⟨hwm, hwk, ?_, ?_⟩
  · rw [keys_append, List.mem_append]
    rintro (hm | hm)
    · exact (mem_keys_delE.mp hm).2 rfl
    · simp [keys, hx] at hm; exact hwk hm
  · intro u hu huw
    rw [keys_append, List.mem_append]
    exact Or.inl (mem_keys_delE.mpr ⟨hu, huw⟩)

/-- C10, shared: any core that behaves like tlru -/
theorem C10_like {c : Core TlruState} (L : Like c) {cap : Nat}
    (R : Refines c .lazy cap (fun _ => Inv cap) abs) {s0 : TlruState} (h0 : Inv cap s0)
    (he : s0.ents = []) {tr : STrace TlruState} {s s' : TlruState}
    {now : Time} {k : Key} {v : Val} {al : Allow} {d : Time}
    (hrun : CRun c s0 tr s)
    (hstep : CStep c s now (.ins k v al d true) s')
    (hnew : k ∉ keys s.ents) (hfull : cap ≤ s.ents.length)
    (hlive : ∀ e ∈ s.ents, now < e.dl) :
    ∃ w, firstIn (useOrder tr) (keys s.ents) = some w ∧ Evicts (keys s.ents) (keys s'.ents) k w := by
  obtain ⟨hi, ho⟩ := run_inv L R h0 he hrun
  obtain ⟨ttl, -, hok, hs'⟩ := CStep.ins_inv hstep
  rw [L.ins] at hok hs'
  obtain ⟨e0, t, hents⟩ : ∃ e0 t, s.ents = e0 :: t := by
    cases h : s.ents with
    | nil =>
      rw [h] at hfull
      have := hi.cap_pos
      simp at hfull; omega
    | cons e0 t => exact ⟨e0, t, rfl⟩
  have hpr := prune_live hi hents hlive
  have hg0 : getE s.ents e0.key = some e0 := by rw [hents]; simp [getE_cons]
  refine ⟨e0.key, ?_, ?_⟩
  · unfold firstIn
    rw [← List.head?_filter, ← ho, hents]
    rfl
  · rw [hs', insert1_full hi hnew hfull hok.symm, hpr]
    exact evicts_of_remove rfl hnew hg0

/-- C16, shared -/
theorem C16_like {c : Core TlruState} (L : Like c) {cap : Nat}
    (R : Refines c .lazy cap (fun _ => Inv cap) abs) {s0 : TlruState} (h0 : Inv cap s0)
    (he : s0.ents = []) {tr : STrace TlruState} {s s' : TlruState}
    {now : Time} {k : Key} {v : Val} {al : Allow} {d : Time}
    (hrun : CRun c s0 tr s)
    (hstep : CStep c s now (.ins k v al d true) s')
    (hnew : k ∉ keys s.ents) (hfull : cap ≤ s.ents.length)
    (hexp : ∃ e ∈ s.ents, e.dl ≤ now) :
    ∃ w e, getE s.ents w = some e ∧ e.dl ≤ now ∧ Evicts (keys s.ents) (keys s'.ents) k w ∧
      ∀ u e', getE s.ents u = some e' → now < e'.dl → getE s'.ents u = some e' := by
  obtain ⟨hi, -⟩ := run_inv L R h0 he hrun
  obtain ⟨ttl, -, hok, hs'⟩ := CStep.ins_inv hstep
  rw [L.ins] at hok hs'
  obtain ⟨w, e, hw, hd, hpr⟩ := prune_expired hi hexp
  refine ⟨w, e, hw, hd, ?_, ?_⟩
  · rw [hs', insert1_full hi hnew hfull hok.symm, hpr]
    exact evicts_of_remove rfl hnew hw
  · intro u e' hu hlt
    have huw : u ≠ w := by
      rintro rfl
      rw [hw] at hu
      cases hu
      exact Nat.not_le.mpr hlt hd
    rw [hs', insert1_full hi hnew hfull hok.symm, hpr, getE_append_single]
    show (getE (delE s.ents w) u).or _ = _
    rw [getE_delE_ne _ huw, hu]
    rfl

end Tlru


/-- **C10, tlru_cache**: no resident entry has expired ⇒ the victim is the least recently used one. -/
theorem C10_tlru (cap : Nat) (hcap : 0 < cap) {tr : STrace TlruState} {s s' : TlruState}
    {now : Time} {k : Key} {v : Val} {al : Allow} {d : Time}
    (hrun : CRun Tlru.core (Tlru.init cap) tr s)
    (hstep : CStep Tlru.core s now (.ins k v al d true) s')
    (hnew : k ∉ keys s.ents) (hfull : cap ≤ s.ents.length)
    (hlive : ∀ e ∈ s.ents, now < e.dl) :
    ∃ w, firstIn (useOrder tr) (keys s.ents) = some w ∧ Evicts (keys s.ents) (keys s'.ents) k w :=
  Tlru.C10_like Tlru.like_tlru (Tlru.refines cap) (Tlru.inv_init hcap) rfl hrun hstep hnew hfull hlive

/-- **C10, utlru_cache.** -/
theorem C10_utlru (cap : Nat) (hcap : 0 < cap) (ttlMs : Nat) {tr : STrace TlruState} {s s' : TlruState}
    {now : Time} {k : Key} {v : Val} {al : Allow} {d : Time}
    (hrun : CRun Utlru.core (Utlru.init cap ttlMs) tr s)
    (hstep : CStep Utlru.core s now (.ins k v al d true) s')
    (hnew : k ∉ keys s.ents) (hfull : cap ≤ s.ents.length)
    (hlive : ∀ e ∈ s.ents, now < e.dl) :
    ∃ w, firstIn (useOrder tr) (keys s.ents) = some w ∧ Evicts (keys s.ents) (keys s'.ents) k w :=
  Tlru.C10_like Tlru.like_utlru (Utlru.refines cap) (Utlru.inv_init hcap ttlMs) rfl hrun hstep hnew hfull hlive

/-- **C16, tlru_cache**: some resident entry has expired ⇒ the entry removed is an expired one, and
(by `Evicts`) every other resident entry, in particular every live one, is kept. -/
theorem C16_tlru (cap : Nat) (hcap : 0 < cap) {tr : STrace TlruState} {s s' : TlruState}
    {now : Time} {k : Key} {v : Val} {al : Allow} {d : Time}
    (hrun : CRun Tlru.core (Tlru.init cap) tr s)
    (hstep : CStep Tlru.core s now (.ins k v al d true) s')
    (hnew : k ∉ keys s.ents) (hfull : cap ≤ s.ents.length)
    (hexp : ∃ e ∈ s.ents, e.dl ≤ now) :
    ∃ w e, getE s.ents w = some e ∧ e.dl ≤ now ∧ Evicts (keys s.ents) (keys s'.ents) k w ∧
      ∀ u e', getE s.ents u = some e' → now < e'.dl → getE s'.ents u = some e' :=
  Tlru.C16_like Tlru.like_tlru (Tlru.refines cap) (Tlru.inv_init hcap) rfl hrun hstep hnew hfull hexp

/-- **C16, utlru_cache** (any sequence of `update_ttl` calls before). -/
theorem C16_utlru (cap : Nat) (hcap : 0 < cap) (ttlMs : Nat) {tr : STrace TlruState} {s s' : TlruState}
    {now : Time} {k : Key} {v : Val} {al : Allow} {d : Time}
    (hrun : CRun Utlru.core (Utlru.init cap ttlMs) tr s)
    (hstep : CStep Utlru.core s now (.ins k v al d true) s')
    (hnew : k ∉ keys s.ents) (hfull : cap ≤ s.ents.length)
    (hexp : ∃ e ∈ s.ents, e.dl ≤ now) :
    ∃ w e, getE s.ents w = some e ∧ e.dl ≤ now ∧ Evicts (keys s.ents) (keys s'.ents) k w ∧
      ∀ u e', getE s.ents u = some e' → now < e'.dl → getE s'.ents u = some e' :=
  Tlru.C16_like Tlru.like_utlru (Utlru.refines cap) (Utlru.inv_init hcap ttlMs) rfl hrun hstep hnew hfull hexp

end Verif
