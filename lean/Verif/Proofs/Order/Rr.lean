import Verif.Spec.Order
import Verif.Proofs.Refine.Rr
/-!
# C15 (rr_cache): the victim is the resident entry in the drawn slot; slots ↔ residents is a bijection
-/
namespace Verif
open Verif.Spec

namespace Rr

/-- the slot invariant holds at every point of every run from the initial state -/
theorem inv_run {cap : Nat} (hcap : 0 < cap) {rnd : List Nat} (hr : ∀ r ∈ rnd, r < cap)
    {tr : STrace RrState} {s : RrState} (hrun : CRun Rr.core (Rr.init cap rnd) tr s) :
    Inv cap s := by
  have := CRun.invariant (c := Rr.core) (P := fun _ s => Inv cap s) (pre := [])
    (fun _ s now x s' h hs => (Refines.cstep (Rr.refines cap) (now := now) h hs).1)
    (inv_init hcap rnd hr) hrun
  exact this

/-- inversion of an `ins` step -/
theorem cstep_ins_inv {σ : Type} {c : Core σ} {s s' : σ} {now : Time} {k : Key} {v : Val}
    {al : Allow} {d : Time} {ok : Bool} (h : CStep c s now (.ins k v al d ok) s') :
    ∃ ttl, s' = (c.insert1 s now k v al ttl).1 ∧ ok = (c.insert1 s now k v al ttl).2 := by
  generalize hx : Atom.ins k v al d ok = x at h
  cases h with
  | ins k' v' a' ttl =>
    injection hx with h1 h2 h3 h4 h5
    subst h1 h2 h3
    exact ⟨ttl, rfl, h5⟩
  | _ => cases hx

/-- a function whose image list is duplicate-free is injective on the list -/
theorem eq_of_nodup_map {α β : Type} (f : α → β) {l : List α} (hn : (l.map f).Nodup)
    {a b : α} (ha : a ∈ l) (hb : b ∈ l) (hab : f a = f b) : a = b := by
  induction l with
  | nil => cases ha
  | cons x t ih =>
    simp only [List.map_cons, List.nodup_cons] at hn
    rcases List.mem_cons.mp ha with rfl | ha' <;> rcases List.mem_cons.mp hb with rfl | hb'
    · rfl
    · exact absurd (hab ▸ List.mem_map_of_mem (f := f) hb') hn.1
    · exact absurd (hab ▸ List.mem_map_of_mem (f := f) ha') hn.1
    · exact ih hn.2 ha' hb'

/-- in a full cache there is no free slot and the resident slot ids are exactly `0 .. cap-1` -/
theorem full_perm {cap : Nat} {s : RrState} (h : Inv cap s) (hfull : cap ≤ s.ents.length) :
    s.free = [] ∧ List.Perm (slots s.ents) (List.range cap) := by
  have hlen := h.len
  have hfree : s.free = [] := by
    apply List.eq_nil_of_length_eq_zero; omega
  have hp := h.perm
  rw [hfree, List.append_nil] at hp
  exact ⟨hfree, hp⟩

end Rr

/-- **C15 (legality).** When an accepted insert of a new key finds the cache full it consumes one
outcome `r` of the random source (`r < cap`) and removes exactly the resident entry stored in slot
`r` — a prior resident, never the key being inserted. -/
theorem C15_rr_victim (cap : Nat) (hcap : 0 < cap) (rnd : List Nat) (hr : ∀ r ∈ rnd, r < cap)
    {tr : STrace RrState} {s s' : RrState} {now : Time} {k : Key} {v : Val} {al : Allow} {d : Time}
    (hrun : CRun Rr.core (Rr.init cap rnd) tr s)
    (hstep : CStep Rr.core s now (.ins k v al d true) s')
    (hnew : k ∉ keys s.ents) (hfull : cap ≤ s.ents.length) :
    ∃ e, Rr.atSlot s.ents (s.rnd.headD 0) = some e ∧ Evicts (keys s.ents) (keys s'.ents) k e.key ∧
      s'.rnd = s.rnd.tail ∧ s.rnd.headD 0 < cap := by
  have h := Rr.inv_run hcap hr hrun
  obtain ⟨hfree, hperm⟩ := Rr.full_perm h hfull
  have hlt : s.rnd.headD 0 < cap := by
    cases hrl : s.rnd with
    | nil => exact hcap
    | cons r t => exact h.rnd_lt r (by rw [hrl]; exact List.mem_cons_self)
  have hmem : s.rnd.headD 0 ∈ Rr.slots s.ents := hperm.mem_iff.mpr (List.mem_range.mpr hlt)
  obtain ⟨e, hat, hel, _⟩ := Rr.atSlot_some_of_mem hmem
  obtain ⟨ttl, hs', hok⟩ := Rr.cstep_ins_inv hstep
  have hg : getE s.ents k = none := getE_eq_none_iff.mpr hnew
  have hfull' : s.ents.length ≥ s.cap := by rw [h.cap_eq]; exact hfull
  have hek : e.key ∈ keys s.ents := List.mem_map_of_mem (f := (·.key)) hel
  have hne : e.key ≠ k := fun hh => hnew (hh ▸ hek)
  simp only [Rr.core, Rr.insert1, hg] at hs' hok
  by_cases ha : al.ins = true
  · simp only [ha, if_true, hfull', Rr.prune, hat] at hs'
    subst hs'
    refine ⟨e, hat, ⟨hek, hne, ?_, ?_⟩, rfl, hlt⟩
    · show e.key ∉ keys (delE s.ents e.key ++ [_])
      rw [keys_append]
      intro hm
      rcases List.mem_append.mp hm with hm | hm
      · exact (mem_keys_delE.mp hm).2 rfl
      · simp only [keys, List.map_cons, List.map_nil, List.mem_singleton] at hm
        exact hne hm
    · intro u hu huw
      show u ∈ keys (delE s.ents e.key ++ [_])
      rw [keys_append]
      exact List.mem_append_left _ (mem_keys_delE.mpr ⟨hu, huw⟩)
  · simp only [ha, Bool.false_eq_true, if_false] at hok
    cases hok

/-- **C15 (spread).** In a full cache, slot ↦ resident is a bijection between `[0, cap)` and the resident
entries: every outcome of the random source names exactly one resident and every resident is named
by exactly one outcome — so a uniform outcome is a uniform victim; no resident is immune, none forced. -/
theorem C15_rr_bijection (cap : Nat) (hcap : 0 < cap) (rnd : List Nat) (hr : ∀ r ∈ rnd, r < cap)
    {tr : STrace RrState} {s : RrState}
    (hrun : CRun Rr.core (Rr.init cap rnd) tr s) (hfull : cap ≤ s.ents.length) :
    (∀ r, r < cap → ∃ e, e ∈ s.ents ∧ e.slot = r ∧ ∀ e' ∈ s.ents, e'.slot = r → e' = e) ∧
    (∀ e ∈ s.ents, e.slot < cap) := by
  have h := Rr.inv_run hcap hr hrun
  obtain ⟨_, hperm⟩ := Rr.full_perm h hfull
  have hnd : (s.ents.map (·.slot)).Nodup := hperm.nodup_iff.mpr List.nodup_range
  refine ⟨?_, ?_⟩
  · intro r hlt
    have hmem : r ∈ Rr.slots s.ents := hperm.mem_iff.mpr (List.mem_range.mpr hlt)
    obtain ⟨e, _, hel, hes⟩ := Rr.atSlot_some_of_mem hmem
    refine ⟨e, hel, hes, ?_⟩
    intro e' he' hs'
    exact Rr.eq_of_nodup_map (·.slot) hnd he' hel (hs'.trans hes.symm)
  · intro e he
    exact List.mem_range.mp (hperm.mem_iff.mp (List.mem_map_of_mem (f := (·.slot)) he))
