import Verif.Spec.Order
import Verif.Proofs.Refine.Rr
/-!
# C15 (rr_cache): the victim is the resident entry in the drawn slot; slots ↔ residents is a bijection
-/
namespace Verif
open Verif.Spec

/-- **C15 (legality).** When an accepted insert of a new key finds the cache full it consumes one
outcome `r` of the random source (`r < cap`) and removes exactly the resident entry stored in slot
`r` — a prior resident, never the key being inserted. -/
theorem C15_rr_victim (cap : Nat) (hcap : 0 < cap) (rnd : List Nat) (hr : ∀ r ∈ rnd, r < cap)
    {tr : STrace RrState} {s s' : RrState} {now : Time} {k : Key} {v : Val} {al : Allow} {d : Time}
    (hrun : CRun Rr.core (Rr.init cap rnd) tr s)
    (hstep : CStep Rr.core s now (.ins k v al d true) s')
    (hnew : k ∉ keys s.ents) (hfull : cap ≤ s.ents.length) :
    ∃ e, Rr.atSlot s.ents (s.rnd.headD 0) = some e ∧ Evicts (keys s.ents) (keys s'.ents) k e.key ∧
      s'.rnd = s.rnd.tail ∧ s.rnd.headD 0 < cap := by
  sorry

/-- **C15 (spread).** In a full cache, slot ↦ resident is a bijection between `[0, cap)` and the resident
entries: every outcome of the random source names exactly one resident and every resident is named
by exactly one outcome — so a uniform outcome is a uniform victim; no resident is immune, none forced. -/
theorem C15_rr_bijection (cap : Nat) (hcap : 0 < cap) (rnd : List Nat) (hr : ∀ r ∈ rnd, r < cap)
    {tr : STrace RrState} {s : RrState}
    (hrun : CRun Rr.core (Rr.init cap rnd) tr s) (hfull : cap ≤ s.ents.length) :
    (∀ r, r < cap → ∃ e, e ∈ s.ents ∧ e.slot = r ∧ ∀ e' ∈ s.ents, e'.slot = r → e' = e) ∧
    (∀ e ∈ s.ents, e.slot < cap) := by
  sorry

end Verif
