import Verif.Spec.Order
import Verif.Proofs.Refine.Lfu
/-!
# C11 (lfu_cache): truthful use counts, victim of minimal count
-/
namespace Verif
open Verif.Spec

/-! ## sortedness of the multimap order -/

/-- count ascending -/
abbrev CntSorted (l : List Entry) : Prop := l.Pairwise (fun x y => x.cnt ≤ y.cnt)

theorem cntSorted_fileCnt {l : List Entry} (h : CntSorted l) (e : Entry) : CntSorted (fileCnt l e) := by
  induction l with
  | nil => simp [fileCnt, CntSorted]
  | cons x xs ih =>
    have hx := List.pairwise_cons.mp h
    simp only [fileCnt]
    split
    · rename_i hle
      refine List.pairwise_cons.mpr ⟨?_, ih hx.2⟩
      intro y hy
      rcases mem_fileCnt.mp hy with hy | hy
      · subst hy; exact hle
      · exact hx.1 y hy
    · rename_i hnle
      refine List.pairwise_cons.mpr ⟨?_, h⟩
      intro y hy
      rcases List.mem_cons.mp hy with hy | hy
      · subst hy; omega
      · have := hx.1 y hy; omega

theorem cntSorted_delE {l : List Entry} (h : CntSorted l) (k : Key) : CntSorted (delE l k) :=
  List.Pairwise.filter _ h

theorem cntSorted_tail {l : List Entry} (h : CntSorted l) : CntSorted l.tail := by
  cases l with
  | nil => exact h
  | cons x xs => exact (List.pairwise_cons.mp h).2

/-! ## the ghost, one atom at a time -/

private theorem useCount_snoc {σ : Type} (keysOf : σ → List Key) (tr : STrace σ) (s : σ) (now : Time) (x : Atom) :
    useCount keysOf (tr ++ [(s, now, x)]) = cntStep (keysOf s) (useCount keysOf tr) x := by
  simp [useCount, List.foldl_append]

/-! ## inversion of atom-level steps -/

private theorem CStep.look_inv {σ : Type} {c : Core σ} {s s' : σ} {now : Time} {k : Key} {pk : Bool}
    {r : Option (Val × Nat)} (h : CStep c s now (.look k pk r) s') :
    r = (c.find1 s now k pk).2 ∧ s' = (c.find1 s now k pk).1 := by
  generalize hx : Atom.look k pk r = x at h
  cases h <;> first | (injection hx; done) | skip
  injection hx with h1 h2 h3
  subst h1 h2 h3
  exact ⟨rfl, rfl⟩

private theorem CStep.ins_inv {σ : Type} {c : Core σ} {s s' : σ} {now : Time} {k : Key} {v : Val}
    {a : Allow} {d : Time} {ok : Bool} (h : CStep c s now (.ins k v a d ok) s') :
    ∃ ttl, ok = (c.insert1 s now k v a ttl).2 ∧ s' = (c.insert1 s now k v a ttl).1 := by
  generalize hx : Atom.ins k v a d ok = x at h
  cases h <;> first | (injection hx; done) | skip
  rename_i k' v' a' ttl
  injection hx with h1 h2 h3 h4 h5
  subst h1 h2 h3 h5
  exact ⟨ttl, rfl, rfl⟩

namespace Lfu

/-- resident keys of a state -/
abbrev K : LfuState → List Key := fun s => keys s.ents

/-- the invariant carried along a run: structural invariant, truthful counts, sorted by count -/
structure OInv (cap : Nat) (tr : STrace LfuState) (s : LfuState) : Prop where
  inv : Inv cap s
  cnt : ∀ e ∈ s.ents, e.cnt = useCount K tr e.key
  sorted : CntSorted s.ents

/-- the atoms that change neither the model state nor the ghost -/
theorem oinv_same {cap : Nat} {p : STrace LfuState} {s : LfuState} {now : Time} {x : Atom}
    (h : OInv cap p s) (hx : ∀ g, cntStep (K s) g x = g) : OInv cap (p ++ [(s, now, x)]) s :=
  ⟨h.inv, by rw [useCount_snoc, hx]; exact h.cnt, h.sorted⟩

/-- `do_access` of the resident entry of `k` (value possibly replaced) against a ghost that adds one
to the count of `k` -/
theorem oinv_access {cap : Nat} {p : STrace LfuState} {s : LfuState} {now : Time} {x : Atom}
    {k : Key} {e e' : Entry} (h : OInv cap p s) (hg : getE s.ents k = some e)
    (hk' : e'.key = e.key) (hc' : e'.cnt = e.cnt)
    (hinv : Inv cap { s with ents := access s.ents e' })
    (hx : cntStep (K s) (useCount K p) x = fun y => if y = k then useCount K p k + 1 else useCount K p y) :
    OInv cap (p ++ [(s, now, x)]) { s with ents := access s.ents e' } := by
  have hek := getE_key hg
  refine ⟨hinv, ?_, ?_⟩
  · intro y hy
    rw [useCount_snoc, hx]
    rcases mem_fileCnt.mp hy with hy | hy
    · subst hy
      show e'.cnt + 1 = if e'.key = k then _ else _
      rw [if_pos (hk'.trans hek), hc', h.cnt e (getE_mem hg), hek]
    · have hm := List.mem_filter.mp hy
      have hne : y.key ≠ k := by
        have := hm.2
        rw [hk', hek] at this
        simpa using this
      simp only [hne, if_false]
      exact h.cnt y hm.1
  · exact cntSorted_fileCnt (cntSorted_delE h.sorted _) _

theorem oinv_step (cap : Nat) (p : STrace LfuState) (s : LfuState) (now : Time) (x : Atom)
    (s' : LfuState) (h : OInv cap p s) (hs : CStep core s now x s') :
    OInv cap (p ++ [(s, now, x)]) s' := by
  have hinv' : Inv cap s' := ((refines cap).cstep (now := now) h.inv hs).1
  cases hs with
  | pre => exact oinv_same h (fun _ => rfl)
  | ins k v a ttl =>
    revert hinv'
    simp only [core, Lfu.insert1]
    cases hg : getE s.ents k with
    | some e =>
      by_cases ha : a.upd = true
      · simp only [ha, if_true]
        intro hinv'
        have hmem : k ∈ K s := getE_isSome_iff.mp (by simp [hg])
        exact oinv_access (e' := { e with val := v }) h hg rfl rfl hinv'
          (by simp only [cntStep, hmem, if_true])
      · simp only [ha, Bool.false_eq_true, if_false]
        intro _
        exact oinv_same h (fun _ => rfl)
    | none =>
      have hk : k ∉ K s := getE_eq_none_iff.mp hg
      by_cases ha : a.ins = true
      · simp only [ha, if_true]
        intro hinv'
        refine ⟨hinv', ?_, ?_⟩
        · intro y hy
          rw [useCount_snoc]
          simp only [cntStep, hk, if_false]
          rcases mem_fileCnt.mp hy with hy | hy
          · subst hy; simp
          · have hys : y ∈ s.ents := by
              split at hy
              · exact List.mem_of_mem_tail hy
              · exact hy
            have hne : y.key ≠ k := fun hh => hk (hh ▸ List.mem_map_of_mem (f := (·.key)) hys)
            simp only [hne, if_false]
            exact h.cnt y hys
        · apply cntSorted_fileCnt
          split
          · exact cntSorted_tail h.sorted
          · exact h.sorted
      · simp only [ha, Bool.false_eq_true, if_false]
        intro _
        exact oinv_same h (fun _ => rfl)
  | look k peek =>
    revert hinv'
    simp only [core, Lfu.find1]
    cases hg : getE s.ents k with
    | none =>
      intro _
      exact oinv_same h (fun _ => by cases peek <;> rfl)
    | some e =>
      cases peek with
      | true =>
        simp only [if_true]
        intro _
        exact oinv_same h (fun _ => rfl)
      | false =>
        simp only [Bool.false_eq_true, if_false]
        intro hinv'
        exact oinv_access (e' := e) h hg rfl rfl hinv' (by simp only [cntStep])
  | del k =>
    revert hinv'
    simp only [core, Lfu.erase1]
    cases hg : getE s.ents k with
    | none => intro _; exact oinv_same h (fun _ => rfl)
    | some e =>
      intro hinv'
      refine ⟨hinv', ?_, cntSorted_delE h.sorted _⟩
      intro y hy
      rw [useCount_snoc]
      exact h.cnt y (List.mem_filter.mp hy).1
  | clear hc => simp [core] at hc
  | reap => exact oinv_same h (fun _ => rfl)
  | age => exact oinv_same h (fun _ => rfl)
  | setTtl t => exact oinv_same h (fun _ => rfl)
  | obsSize => exact oinv_same h (fun _ => rfl)
  | obsEmpty => exact oinv_same h (fun _ => rfl)
  | obsCap => exact oinv_same h (fun _ => rfl)

theorem oinv_run {cap : Nat} (hcap : 0 < cap) {tr : STrace LfuState} {s : LfuState}
    (hrun : CRun core (init cap) tr s) : OInv cap tr s := by
  have h0 : OInv cap [] (init cap) :=
    ⟨inv_init hcap, by simp [init], by simp [init, CntSorted]⟩
  simpa using CRun.invariant (P := OInv cap) (oinv_step cap) h0 hrun

end Lfu

/-- **C11 (counts).** Every lookup that finds an entry reports its use count: 1 at creation, +1 per
accepted update and per successful non-peek lookup — the current one included when not peeking. -/
theorem C11_lfu_count (cap : Nat) (hcap : 0 < cap) {tr : STrace LfuState} {s s' : LfuState}
    {now : Time} {k : Key} {pk : Bool} {v : Val} {n : Nat}
    (hrun : CRun Lfu.core (Lfu.init cap) tr s)
    (hstep : CStep Lfu.core s now (.look k pk (some (v, n))) s') :
    n = useCount (fun s => keys s.ents) (tr ++ [(s, now, .look k pk (some (v, n)))]) k := by
  have h := Lfu.oinv_run hcap hrun
  obtain ⟨hr, _⟩ := CStep.look_inv hstep
  rw [useCount_snoc]
  simp only [Lfu.core, Lfu.find1] at hr
  cases hg : getE s.ents k with
  | none => simp [hg] at hr
  | some e =>
    have hc : e.cnt = useCount Lfu.K tr k := by
      have := h.cnt e (getE_mem hg)
      rwa [getE_key hg] at this
    cases pk with
    | true =>
      simp only [hg, if_true, Option.some.injEq, Prod.mk.injEq] at hr
      simp only [cntStep]
      rw [hr.2]; exact hc
    | false =>
      simp only [hg, Bool.false_eq_true, if_false, Option.some.injEq, Prod.mk.injEq] at hr
      simp only [cntStep, if_true]
      rw [hr.2, hc]

/-- **C11 (victim).** When an accepted insert of a new key finds the cache full, the entry removed has
a use count that is minimal among the resident entries. -/
theorem C11_lfu_victim (cap : Nat) (hcap : 0 < cap) {tr : STrace LfuState} {s s' : LfuState}
    {now : Time} {k : Key} {v : Val} {al : Allow} {d : Time}
    (hrun : CRun Lfu.core (Lfu.init cap) tr s)
    (hstep : CStep Lfu.core s now (.ins k v al d true) s')
    (hnew : k ∉ keys s.ents) (hfull : cap ≤ s.ents.length) :
    ∃ w, Evicts (keys s.ents) (keys s'.ents) k w ∧
      ∀ u ∈ keys s.ents, useCount (fun s => keys s.ents) tr w ≤ useCount (fun s => keys s.ents) tr u := by
  have h := Lfu.oinv_run hcap hrun
  obtain ⟨ttl, hok, hs'⟩ := CStep.ins_inv hstep
  have hg : getE s.ents k = none := getE_eq_none_iff.mpr hnew
  have hge : s.ents.length ≥ s.cap := by rw [h.inv.cap_eq]; exact hfull
  simp only [Lfu.core, Lfu.insert1, hg] at hok hs'
  by_cases ha : al.ins = true
  · simp only [ha, if_true, hge] at hs'
    subst hs'
    have hcnt := h.cnt
    have hsorted := h.sorted
    have hnodup := h.inv.nodup
    cases hl : s.ents with
    | nil => rw [hl] at hfull; simp at hfull; omega
    | cons e0 t =>
      rw [hl] at hcnt hsorted hnodup hnew
      simp only [List.tail_cons]
      have hnd := hnodup
      simp only [keys, List.map_cons, List.nodup_cons] at hnd
      have hne : e0.key ≠ k := fun hh => hnew (by simp [keys, hh])
      refine ⟨e0.key, ⟨by simp [keys], hne, ?_, ?_⟩, ?_⟩
      · rw [mem_keys_fileCnt]
        intro hh
        rcases hh with hh | hh
        · exact hne hh
        · exact hnd.1 hh
      · intro u hu hne'
        rw [mem_keys_fileCnt]
        right
        simp only [keys, List.map_cons, List.mem_cons] at hu
        rcases hu with hu | hu
        · exact absurd hu hne'
        · exact hu
      · intro u hu
        obtain ⟨e, he, hek⟩ := List.mem_map.mp hu
        rw [← hek]
        show useCount Lfu.K tr e0.key ≤ useCount Lfu.K tr e.key
        rw [← hcnt e0 (by simp), ← hcnt e he]
        rcases List.mem_cons.mp he with he | he
        · subst he; exact Nat.le_refl _
        · exact (List.pairwise_cons.mp hsorted).1 e he
  · simp [ha] at hok

end Verif
