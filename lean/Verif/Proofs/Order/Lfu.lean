import Verif.Spec.Order
import Verif.Proofs.Refine.Lfu
/-!
# C11 (lfu_cache): truthful use counts, victim of minimal count
-/
namespace Verif
open Verif.Spec

/-- **C11 (counts).** Every lookup that finds an entry reports its use count: 1 at creation, +1 per
accepted update and per successful non-peek lookup — the current one included when not peeking. -/
theorem C11_lfu_count (cap : Nat) (hcap : 0 < cap) {tr : STrace LfuState} {s s' : LfuState}
    {now : Time} {k : Key} {pk : Bool} {v : Val} {n : Nat}
    (hrun : CRun Lfu.core (Lfu.init cap) tr s)
    (hstep : CStep Lfu.core s now (.look k pk (some (v, n))) s') :
    n = useCount (fun s => keys s.ents) (tr ++ [(s, now, .look k pk (some (v, n)))]) k := by
  sorry

/-- **C11 (victim).** When an accepted insert of a new key finds the cache full, the entry removed has
a use count that is minimal among the resident entries. -/
theorem C11_lfu_victim (cap : Nat) (hcap : 0 < cap) {tr : STrace LfuState} {s s' : LfuState}
    {now : Time} {k : Key} {v : Val} {al : Allow} {d : Time}
    (hrun : CRun Lfu.core (Lfu.init cap) tr s)
    (hstep : CStep Lfu.core s now (.ins k v al d true) s')
    (hnew : k ∉ keys s.ents) (hfull : cap ≤ s.ents.length) :
    ∃ w, Evicts (keys s.ents) (keys s'.ents) k w ∧
      ∀ u ∈ keys s.ents, useCount (fun s => keys s.ents) tr w ≤ useCount (fun s => keys s.ents) tr u := by
  sorry

end Verif
