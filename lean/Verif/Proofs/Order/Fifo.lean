import Verif.Spec.Order
import Verif.Proofs.Refine.Fifo
/-!
# C12 (fifo_cache): the victim is the earliest-inserted resident entry
-/
namespace Verif
open Verif.Spec

/-- **C12.** When an accepted insert of a new key finds the cache full, the entry removed is the
resident key whose creating insert is earliest (`bornOrder`: updates and lookups never move a key; a
key erased or evicted and inserted again counts from its re-insertion). -/
theorem C12_fifo (cap : Nat) (hcap : 0 < cap) {tr : STrace FifoState} {s s' : FifoState}
    {now : Time} {k : Key} {v : Val} {al : Allow} {d : Time}
    (hrun : CRun Fifo.core (Fifo.init cap) tr s)
    (hstep : CStep Fifo.core s now (.ins k v al d true) s')
    (hnew : k ∉ keys s.ents) (hfull : cap ≤ s.ents.length) :
    ∃ w, firstIn (bornOrder (fun s => keys s.ents) tr) (keys s.ents) = some w ∧
      Evicts (keys s.ents) (keys s'.ents) k w := by
  sorry

end Verif
