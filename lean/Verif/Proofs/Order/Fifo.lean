import Verif.Spec.Order
import Verif.Proofs.Refine.Fifo
/-!
# C12 (fifo_cache): the victim is the earliest-inserted resident entry
-/
namespace Verif
open Verif.Spec

namespace Fifo

/-- the keys of the model state -/
abbrev K : FifoState → List Key := fun s => keys s.ents

/-- `L` is the ghost `g` restricted to the keys of `L` -/
def Restr (g L : List Key) : Prop := L = g.filter (fun x => decide (x ∈ L))

theorem bornOrder_snoc (p : STrace FifoState) (s : FifoState) (now : Time) (x : Atom) :
    bornOrder K (p ++ [(s, now, x)]) = bornStep (keys s.ents) (bornOrder K p) x := by
  simp [bornOrder, List.foldl_append]

/-- restricting both sides by a predicate -/
theorem Restr.filter {g L : List Key} (h : Restr g L) (p : Key → Bool) :
    Restr (g.filter p) (L.filter p) := by
  unfold Restr at h ⊢
  refine (congrArg (List.filter p) h).trans ?_
  rw [List.filter_filter, List.filter_filter]
  apply List.filter_congr
  intro x _
  by_cases hp : p x = true <;> by_cases hl : x ∈ L <;> simp [hp, hl]

/-- restricting the resident keys only -/
theorem Restr.sub {g L : List Key} (h : Restr g L) (p : Key → Bool) :
    Restr g (L.filter p) := by
  unfold Restr at h ⊢
  refine (congrArg (List.filter p) h).trans ?_
  rw [List.filter_filter]
  apply List.filter_congr
  intro x _
  by_cases hp : p x = true <;> by_cases hl : x ∈ L <;> simp [hp, hl]

theorem Restr.tail {g : List Key} {a : Key} {t : List Key} (h : Restr g (a :: t))
    (hn : (a :: t).Nodup) : Restr g t := by
  have := h.sub (fun x => !decide (x = a))
  have e : (a :: t).filter (fun x => !decide (x = a)) = t := by
    rw [List.nodup_cons] at hn
    rw [List.filter_cons]
    simp only [decide_true, Bool.not_true, Bool.false_eq_true, if_false]
    rw [List.filter_eq_self]
    intro x hx
    have : x ≠ a := fun hh => hn.1 (hh ▸ hx)
    simp [this]
  rw [e] at this
  exact this

/-- a creating insert: the key goes to the end of both -/
theorem Restr.snoc {g L : List Key} (h : Restr g L) {k : Key} (hk : k ∉ L) :
    Restr (dropKey g k ++ [k]) (L ++ [k]) := by
  unfold Restr at h ⊢
  rw [List.filter_append]
  have e1 : List.filter (fun x => decide (x ∈ L ++ [k])) [k] = [k] := by simp
  rw [e1]
  congr 1
  unfold dropKey
  rw [List.filter_filter]
  have e2 : L = g.filter (fun x => decide (x ∈ L)) := h
  refine e2.trans ?_
  apply List.filter_congr
  intro x _
  by_cases hx : x = k
  · subst hx; simp [hk]
  · simp [hx]

/-- the invariant: the refinement invariant, and the entry list is the insertion-rank ghost
restricted to the resident keys -/
def OrdInv (cap : Nat) (p : STrace FifoState) (s : FifoState) : Prop :=
  Inv cap s ∧ Restr (bornOrder K p) (keys s.ents)

theorem ordInv_step (cap : Nat) (p : STrace FifoState) (s : FifoState) (now : Time) (x : Atom)
    (s' : FifoState) (h : OrdInv cap p s) (hs : CStep core s now x s') :
    OrdInv cap (p ++ [(s, now, x)]) s' := by
  obtain ⟨hI, hR⟩ := h
  refine ⟨((refines cap).cstep (now := now) hI hs).1, ?_⟩
  rw [bornOrder_snoc]
  cases hs with
  | pre => exact hR
  | ins k v a ttl =>
    simp only [core, Fifo.insert1]
    cases hg : getE s.ents k with
    | some e =>
      have hk : k ∈ keys s.ents := getE_isSome_iff.mp (by simp [hg])
      by_cases ha : a.upd = true
      · simp only [ha, if_true, bornStep, hk, keys_setVal]
        exact hR
      · simp only [ha, Bool.false_eq_true, if_false, bornStep]
        exact hR
    | none =>
      have hk : k ∉ keys s.ents := getE_eq_none_iff.mp hg
      by_cases ha : a.ins = true
      · simp only [ha, if_true, bornStep, hk, if_false, keys_append]
        have e1 : keys [({ key := k, val := v } : Entry)] = [k] := rfl
        rw [e1]
        by_cases hfull : s.ents.length ≥ s.cap
        · simp only [hfull, if_true]
          cases hl : s.ents with
          | nil => exact (hl ▸ hR).snoc (by simp [keys])
          | cons e0 t =>
            simp only [List.tail_cons]
            have hn : (keys (e0 :: t)).Nodup := by rw [← hl]; exact hI.nodup
            have hR' : Restr (bornOrder K p) (keys (e0 :: t)) := by rw [← hl]; exact hR
            have hk' : k ∉ keys (e0 :: t) := by rw [← hl]; exact hk
            simp only [keys, List.map_cons] at hn hR' hk'
            exact (hR'.tail hn).snoc (fun hm => hk' (List.mem_cons_of_mem _ hm))
        · simp only [hfull, if_false]
          exact hR.snoc hk
      · simp only [ha, Bool.false_eq_true, if_false, bornStep]
        exact hR
  | look k peek => exact hR
  | del k =>
    simp only [core, Fifo.erase1]
    cases hg : getE s.ents k with
    | some e =>
      simp only [bornStep, keys_delE]
      exact hR.filter _
    | none =>
      simp only [bornStep]
      exact hR
  | clear hc => simp [core] at hc
  | reap => exact hR
  | age => exact hR
  | setTtl t => exact hR
  | obsSize => exact hR
  | obsEmpty => exact hR
  | obsCap => exact hR

theorem ordInv_run {cap : Nat} (hcap : 0 < cap) {tr : STrace FifoState} {s : FifoState}
    (hrun : CRun core (init cap) tr s) : OrdInv cap tr s := by
  have h0 : OrdInv cap [] (init cap) := ⟨inv_init hcap, by simp [Restr, init, keys, bornOrder]⟩
  have := CRun.invariant (P := OrdInv cap) (ordInv_step cap) h0 hrun
  simpa using this

/-- inversion of an accepted insert step -/
theorem ins_step_inv {s s' : FifoState} {now : Time} {k : Key} {v : Val} {al : Allow} {d : Time}
    {ok : Bool} (hstep : CStep core s now (.ins k v al d ok) s') :
    s' = (insert1 s k v al).1 ∧ ok = (insert1 s k v al).2 := by
  generalize hx : Atom.ins k v al d ok = x at hstep
  cases hstep <;> try (cases hx)
  exact ⟨rfl, rfl⟩

end Fifo

/-- **C12.** When an accepted insert of a new key finds the cache full, the entry removed is the
resident key whose creating insert is earliest (`bornOrder`: updates and lookups never move a key; a
key erased or evicted and inserted again counts from its re-insertion). -/
theorem C12_fifo (cap : Nat) (hcap : 0 < cap) {tr : STrace FifoState} {s s' : FifoState}
    {now : Time} {k : Key} {v : Val} {al : Allow} {d : Time}
    (hrun : CRun Fifo.core (Fifo.init cap) tr s)
    (hstep : CStep Fifo.core s now (.ins k v al d true) s')
    (hnew : k ∉ keys s.ents) (hfull : cap ≤ s.ents.length) :
    ∃ w, firstIn (bornOrder (fun s => keys s.ents) tr) (keys s.ents) = some w ∧
      Evicts (keys s.ents) (keys s'.ents) k w := by
  obtain ⟨hI, hR⟩ := Fifo.ordInv_run hcap hrun
  obtain ⟨hs', hok⟩ := Fifo.ins_step_inv hstep
  have hg : getE s.ents k = none := getE_eq_none_iff.mpr hnew
  have hge : s.ents.length ≥ s.cap := by rw [hI.cap_eq]; exact hfull
  simp only [Fifo.insert1, hg] at hs' hok
  by_cases ha : al.ins = true
  · simp only [ha, if_true, hge] at hs'
    subst hs'
    cases hl : s.ents with
    | nil => rw [hl] at hfull; simp at hfull; omega
    | cons e0 t =>
      have hn : (keys (e0 :: t)).Nodup := by rw [← hl]; exact hI.nodup
      have hR' : Fifo.Restr (bornOrder Fifo.K tr) (keys (e0 :: t)) := by rw [← hl]; exact hR
      have hk' : k ∉ keys (e0 :: t) := by rw [← hl]; exact hnew
      simp only [List.tail_cons, keys_append]
      simp only [keys, List.map_cons, List.map_nil, List.nodup_cons, List.mem_cons, not_or] at hn hk' hR' ⊢
      refine ⟨e0.key, ?_, ?_⟩
      · unfold firstIn
        rw [← List.head?_filter]
        show List.head? (List.filter (fun x => decide (x ∈ e0.key :: List.map (·.key) t))
          (bornOrder Fifo.K tr)) = some e0.key
        rw [← hR']
        rfl
      · refine ⟨List.mem_cons.mpr (Or.inl rfl), fun h => hk'.1 h.symm, ?_, ?_⟩
        · intro hm
          rcases List.mem_append.mp hm with hm | hm
          · exact hn.1 hm
          · simp only [List.mem_singleton] at hm
            exact hk'.1 hm.symm
        · intro u hu hne
          rcases List.mem_cons.mp hu with hu | hu
          · exact absurd hu hne
          · exact List.mem_append_left _ hu
  · simp [ha] at hok

end Verif
