import Verif.Spec.Order
import Verif.Proofs.Refine.Lfuda
/-!
# The order invariant of `lfuda_cache` relative to the aging ghost

`Lfuda.Ord cap tick num den g T s`: the model state `s` agrees with the ghost `g` (counts and stamps of
the resident entries), `ents` is sorted by count, `age` is a duplicate-free enumeration of the resident
keys sorted by stamp, and no stamp exceeds `T` (the latest clock reading).
-/
namespace Verif
open Verif.Spec

/-! ## list lemmas -/

theorem pairwise_of_forall_mem {α : Type} {R : α → α → Prop} {l : List α}
    (h : ∀ a ∈ l, ∀ b ∈ l, R a b) : l.Pairwise R := by
  induction l with
  | nil => exact List.Pairwise.nil
  | cons x xs ih =>
    refine List.Pairwise.cons (fun b hb => h x (List.mem_cons_self ..) b (List.mem_cons_of_mem _ hb)) ?_
    exact ih (fun a ha b hb => h a (List.mem_cons_of_mem _ ha) b (List.mem_cons_of_mem _ hb))

/-- along a list sorted by `f`, a predicate that is downward closed in `f` holds on a prefix -/
theorem takeWhile_eq_filter_of_sorted {α : Type} (f : α → Nat) (p : α → Bool) {l : List α}
    (hs : l.Pairwise (fun a b => f a ≤ f b))
    (hp : ∀ a b, f a ≤ f b → p b = true → p a = true) :
    l.takeWhile p = l.filter p := by
  induction l with
  | nil => rfl
  | cons x xs ih =>
    rw [List.pairwise_cons] at hs
    by_cases hx : p x = true
    · simp only [List.takeWhile_cons, List.filter_cons, hx, if_true]
      rw [ih hs.2]
    · simp only [List.takeWhile_cons, List.filter_cons, hx, if_false, Bool.false_eq_true]
      symm
      rw [List.filter_eq_nil_iff]
      intro b hb hpb
      exact hx (hp x b (hs.1 b hb) hpb)

theorem dropWhile_eq_filter_of_sorted {α : Type} (f : α → Nat) (p : α → Bool) {l : List α}
    (hs : l.Pairwise (fun a b => f a ≤ f b))
    (hp : ∀ a b, f a ≤ f b → p b = true → p a = true) :
    l.dropWhile p = l.filter (fun a => !p a) := by
  induction l with
  | nil => rfl
  | cons x xs ih =>
    rw [List.pairwise_cons] at hs
    by_cases hx : p x = true
    · simp only [List.dropWhile_cons, List.filter_cons, hx, if_true, Bool.not_true,
        Bool.false_eq_true, if_false]
      exact ih hs.2
    · simp only [List.dropWhile_cons, List.filter_cons, hx, if_false, Bool.false_eq_true]
      simp only [Bool.not_false, if_true]
      congr 1
      symm
      rw [List.filter_eq_self]
      intro b hb
      have : ¬ p b = true := fun hpb => hx (hp x b (hs.1 b hb) hpb)
      simpa using this

theorem takeWhile_congr_mem {α : Type} {p q : α → Bool} {l : List α} (h : ∀ a ∈ l, p a = q a) :
    l.takeWhile p = l.takeWhile q := by
  induction l with
  | nil => rfl
  | cons x xs ih =>
    simp only [List.takeWhile_cons, h x (List.mem_cons_self ..)]
    rw [ih (fun a ha => h a (List.mem_cons_of_mem _ ha))]

theorem dropWhile_congr_mem {α : Type} {p q : α → Bool} {l : List α} (h : ∀ a ∈ l, p a = q a) :
    l.dropWhile p = l.dropWhile q := by
  induction l with
  | nil => rfl
  | cons x xs ih =>
    simp only [List.dropWhile_cons, h x (List.mem_cons_self ..)]
    rw [ih (fun a ha => h a (List.mem_cons_of_mem _ ha))]

/-- two duplicate-free enumerations of the same set have equally long filters -/
theorem length_filter_eq_of_nodup {l₁ l₂ : List Key} (h1 : l₁.Nodup) (h2 : l₂.Nodup)
    (hm : ∀ a, a ∈ l₁ ↔ a ∈ l₂) (p : Key → Bool) :
    (l₁.filter p).length = (l₂.filter p).length :=
  (((List.perm_ext_iff_of_nodup h1 h2).mpr hm).filter p).length_eq

/-! ## `fileCnt` keeps the multimap order -/

def DaCntSorted (l : List Entry) : Prop := l.Pairwise (fun a b => a.cnt ≤ b.cnt)

theorem daCntSorted_fileCnt {l : List Entry} (h : DaCntSorted l) (e : Entry) : DaCntSorted (fileCnt l e) := by
  unfold DaCntSorted at *
  induction l with
  | nil => simp [fileCnt]
  | cons x xs ih =>
    rw [List.pairwise_cons] at h
    simp only [fileCnt]
    split
    · rename_i hxe
      refine List.Pairwise.cons ?_ (ih h.2)
      intro b hb
      rcases mem_fileCnt.mp hb with hb | hb
      · subst hb; exact hxe
      · exact h.1 b hb
    · rename_i hxe
      have hlt : e.cnt ≤ x.cnt := by omega
      refine List.Pairwise.cons ?_ (List.Pairwise.cons h.1 h.2)
      intro b hb
      rcases List.mem_cons.mp hb with hb | hb
      · subst hb; exact hlt
      · exact Nat.le_trans hlt (h.1 b hb)

theorem daCntSorted_delE {l : List Entry} (h : DaCntSorted l) (k : Key) : DaCntSorted (delE l k) :=
  List.Pairwise.filter _ h

theorem time_add_lt_of_le {a b t c : Nat} (h : a ≤ b) (h2 : b + t < c) : a + t < c :=
  Nat.lt_of_le_of_lt (Nat.add_le_add_right h _) h2

theorem getE_of_mem_keys {l : List Entry} {k : Key} (h : k ∈ keys l) :
    ∃ e, getE l k = some e ∧ e.key = k ∧ e ∈ l := by
  cases hg : getE l k with
  | none => exact absurd h (getE_eq_none_iff.mp hg)
  | some e => exact ⟨e, rfl, getE_key hg, getE_mem hg⟩

theorem mem_keys_of_mem {l : List Entry} {e : Entry} (h : e ∈ l) : e.key ∈ keys l :=
  List.mem_map_of_mem (f := (·.key)) h

theorem exists_mem_of_mem_keys {l : List Entry} {k : Key} (h : k ∈ keys l) : ∃ e ∈ l, e.key = k := by
  obtain ⟨e, he, hk⟩ := List.mem_map.mp h
  exact ⟨e, he, hk⟩

namespace Lfuda

/-- the order invariant, relative to a ghost `g` and an upper bound `T` of the stamps -/
structure Ord (cap tick num den : Nat) (g : DA) (T : Time) (s : LfudaState) : Prop where
  cap_eq : s.cap = cap
  tick_eq : s.tick = tick
  num_eq : s.num = num
  den_eq : s.den = den
  nodup : (keys s.ents).Nodup
  age_nodup : s.age.Nodup
  age_mem : ∀ k, k ∈ s.age ↔ k ∈ keys s.ents
  cnt_eq : ∀ e ∈ s.ents, e.cnt = g.cnt e.key
  stamp_eq : ∀ e ∈ s.ents, e.stamp = g.stamp e.key
  sorted : DaCntSorted s.ents
  age_sorted : s.age.Pairwise (fun a b => g.stamp a ≤ g.stamp b)
  stamp_le : ∀ k ∈ s.age, g.stamp k ≤ T

variable {cap tick num den : Nat} {g : DA} {T : Time} {s : LfudaState}

theorem ord_init (cap tickMs num den : Nat) :
    Ord cap (tickMs * msNs) num den ⟨fun _ => 0, fun _ => 0⟩ 0 (init cap tickMs num den) where
  cap_eq := rfl
  tick_eq := rfl
  num_eq := rfl
  den_eq := rfl
  nodup := by simp [init, keys]
  age_nodup := by simp [init]
  age_mem := by simp [init, keys]
  cnt_eq := by simp [init]
  stamp_eq := by simp [init]
  sorted := by simp [init, DaCntSorted]
  age_sorted := by simp [init]
  stamp_le := by simp [init]

theorem Ord.mono (h : Ord cap tick num den g T s) {T' : Time} (hT : T ≤ T') :
    Ord cap tick num den g T' s :=
  { h with stamp_le := fun k hk => Nat.le_trans (h.stamp_le k hk) hT }

theorem Ord.removeKey (h : Ord cap tick num den g T s) (k : Key) :
    Ord cap tick num den g T (removeKey s k) where
  cap_eq := h.cap_eq
  tick_eq := h.tick_eq
  num_eq := h.num_eq
  den_eq := h.den_eq
  nodup := nodup_keys_delE h.nodup k
  age_nodup := List.Pairwise.filter _ h.age_nodup
  age_mem := by
    intro x
    show x ∈ s.age.filter _ ↔ x ∈ keys (delE s.ents k)
    rw [mem_keys_delE, List.mem_filter, h.age_mem x]
    simp
  cnt_eq := fun e he => h.cnt_eq e (List.mem_filter.mp he).1
  stamp_eq := fun e he => h.stamp_eq e (List.mem_filter.mp he).1
  sorted := daCntSorted_delE h.sorted k
  age_sorted := List.Pairwise.filter _ h.age_sorted
  stamp_le := fun x hx => h.stamp_le x (List.mem_filter.mp hx).1

/-- filing a new entry for a non-resident key, stamped `now`, at the young end -/
theorem Ord.put (h : Ord cap tick num den g T s) {now : Time} (hT : T ≤ now) {e : Entry} {g' : DA}
    (hk : e.key ∉ keys s.ents) (hst : e.stamp = now)
    (hc' : g'.cnt e.key = e.cnt) (hs' : g'.stamp e.key = now)
    (hoff : ∀ x, x ≠ e.key → g'.cnt x = g.cnt x ∧ g'.stamp x = g.stamp x) :
    Ord cap tick num den g' now { s with ents := fileCnt s.ents e, age := s.age ++ [e.key] } where
  cap_eq := h.cap_eq
  tick_eq := h.tick_eq
  num_eq := h.num_eq
  den_eq := h.den_eq
  nodup := nodup_keys_fileCnt h.nodup hk
  age_nodup := by
    show (s.age ++ [e.key]).Nodup
    rw [List.nodup_append]
    refine ⟨h.age_nodup, by simp, ?_⟩
    intro a ha b hb
    simp only [List.mem_cons, List.not_mem_nil, or_false] at hb
    subst hb
    intro hab; subst hab
    exact hk ((h.age_mem _).mp ha)
  age_mem := by
    intro x
    show x ∈ s.age ++ [e.key] ↔ x ∈ keys (fileCnt s.ents e)
    rw [mem_keys_fileCnt, List.mem_append, h.age_mem x]
    simp only [List.mem_cons, List.not_mem_nil, or_false]
    exact Or.comm
  cnt_eq := by
    intro x hx
    rcases mem_fileCnt.mp hx with hx | hx
    · subst hx; exact hc'.symm
    · have hne : x.key ≠ e.key := fun hh => hk (hh ▸ mem_keys_of_mem hx)
      rw [(hoff _ hne).1]; exact h.cnt_eq x hx
  stamp_eq := by
    intro x hx
    rcases mem_fileCnt.mp hx with hx | hx
    · subst hx; rw [hs']; exact hst
    · have hne : x.key ≠ e.key := fun hh => hk (hh ▸ mem_keys_of_mem hx)
      rw [(hoff _ hne).2]; exact h.stamp_eq x hx
  sorted := daCntSorted_fileCnt h.sorted e
  age_sorted := by
    show (s.age ++ [e.key]).Pairwise _
    rw [List.pairwise_append]
    have hne : ∀ a ∈ s.age, a ≠ e.key := fun a ha hh => hk (hh ▸ (h.age_mem a).mp ha)
    refine ⟨?_, by simp, ?_⟩
    · refine List.Pairwise.imp_of_mem ?_ h.age_sorted
      intro a b ha hb hab
      rw [(hoff a (hne a ha)).2, (hoff b (hne b hb)).2]; exact hab
    · intro a ha b hb
      simp only [List.mem_cons, List.not_mem_nil, or_false] at hb
      subst hb
      rw [(hoff a (hne a ha)).2, hs']
      exact Nat.le_trans (h.stamp_le a ha) hT
  stamp_le := by
    intro x hx
    rcases List.mem_append.mp hx with hx | hx
    · have hne : x ≠ e.key := fun hh => hk (hh ▸ (h.age_mem x).mp hx)
      rw [(hoff x hne).2]
      exact Nat.le_trans (h.stamp_le x hx) hT
    · simp only [List.mem_cons, List.not_mem_nil, or_false] at hx
      subst hx; rw [hs']; exact Nat.le_refl _

/-- `do_access` of a resident entry is a use -/
theorem Ord.access (h : Ord cap tick num den g T s) {now : Time} (hT : T ≤ now) {e0 e : Entry}
    (hg : getE s.ents e.key = some e0) (hcnt : e.cnt = e0.cnt) :
    Ord cap tick num den (g.use e.key now) now (access s e now) := by
  have hr := h.removeKey e.key
  have hc0 : e0.cnt = g.cnt e.key := by
    have := h.cnt_eq e0 (getE_mem hg); rw [getE_key hg] at this; exact this
  have := hr.put hT (e := { e with cnt := e.cnt + 1, stamp := now }) (g' := g.use e.key now)
    (not_mem_keys_delE_self _ _) rfl (by simp [DA.use, hcnt, hc0]) (by simp [DA.use])
    (by intro x hx; simp [DA.use, hx])
  exact this

/-! ## dynamic aging -/

/-- one step of the aging walk on a resident key -/
theorem ageOne_ord (now : Time) (num den : Nat) {l : List Entry} {k : Key}
    (hn : (keys l).Nodup) (hs : DaCntSorted l) (hk : k ∈ keys l) :
    (keys (ageOne now num den l k)).Nodup ∧ DaCntSorted (ageOne now num den l k) ∧
      (∀ x, x ∈ keys (ageOne now num den l k) ↔ x ∈ keys l) ∧
      ∀ e' ∈ ageOne now num den l k, ∃ e ∈ l, e.key = e'.key ∧
        (e.key = k → e'.cnt = e.cnt * num / den ∧ e'.stamp = now) ∧
        (e.key ≠ k → e'.cnt = e.cnt ∧ e'.stamp = e.stamp) := by
  obtain ⟨e0, hg, hk0, hm0⟩ := getE_of_mem_keys hk
  unfold ageOne
  rw [hg]
  subst hk0
  refine ⟨?_, ?_, ?_, ?_⟩
  · exact nodup_keys_refile (e := { e0 with cnt := e0.cnt * num / den, stamp := now }) hn
  · exact daCntSorted_fileCnt (daCntSorted_delE hs _) _
  · intro x
    rw [mem_keys_fileCnt, mem_keys_delE]
    constructor
    · rintro (hx | hx)
      · rw [hx]; exact hk
      · exact hx.1
    · intro hx
      by_cases hxe : x = e0.key
      · exact Or.inl hxe
      · exact Or.inr ⟨hx, hxe⟩
  · intro e' he'
    rcases mem_fileCnt.mp he' with he' | he'
    · subst he'
      exact ⟨e0, hm0, rfl, fun _ => ⟨rfl, rfl⟩, fun hne => absurd rfl hne⟩
    · have hmem := (List.mem_filter.mp he').1
      have hne : e'.key ≠ e0.key := (mem_keys_delE.mp (mem_keys_of_mem he')).2
      exact ⟨e', hmem, rfl, fun heq => absurd heq hne, fun _ => ⟨rfl, rfl⟩⟩

/-- the aging walk over a duplicate-free list of resident keys -/
theorem foldl_ageOne_ord (now : Time) (num den : Nat) (ks : List Key) {l : List Entry}
    (hks : ks.Nodup) (hsub : ∀ k ∈ ks, k ∈ keys l)
    (hn : (keys l).Nodup) (hs : DaCntSorted l) :
    (keys (ks.foldl (ageOne now num den) l)).Nodup ∧ DaCntSorted (ks.foldl (ageOne now num den) l) ∧
      (∀ x, x ∈ keys (ks.foldl (ageOne now num den) l) ↔ x ∈ keys l) ∧
      ∀ e' ∈ ks.foldl (ageOne now num den) l, ∃ e ∈ l, e.key = e'.key ∧
        (e.key ∈ ks → e'.cnt = e.cnt * num / den ∧ e'.stamp = now) ∧
        (e.key ∉ ks → e'.cnt = e.cnt ∧ e'.stamp = e.stamp) := by
  induction ks generalizing l with
  | nil =>
    refine ⟨hn, hs, fun _ => Iff.rfl, ?_⟩
    intro e' he'
    exact ⟨e', he', rfl, fun h => absurd h (List.not_mem_nil), fun _ => ⟨rfl, rfl⟩⟩
  | cons k ks ih =>
    rw [List.nodup_cons] at hks
    obtain ⟨h1, h2, h3, h4⟩ := ageOne_ord now num den hn hs (hsub k (List.mem_cons_self ..))
    have hsub' : ∀ k' ∈ ks, k' ∈ keys (ageOne now num den l k) :=
      fun k' hk' => (h3 k').mpr (hsub k' (List.mem_cons_of_mem _ hk'))
    obtain ⟨i1, i2, i3, i4⟩ := ih hks.2 hsub' h1 h2
    simp only [List.foldl_cons]
    refine ⟨i1, i2, fun x => (i3 x).trans (h3 x), ?_⟩
    intro e' he'
    obtain ⟨e1, he1, hk1, ha1, hb1⟩ := i4 e' he'
    obtain ⟨e, he, hke, ha, hb⟩ := h4 e1 he1
    refine ⟨e, he, hke.trans hk1, ?_, ?_⟩
    · intro hin
      by_cases hek : e.key = k
      · have hnot : e1.key ∉ ks := by rw [← hke, hek]; exact hks.1
        obtain ⟨c1, s1⟩ := hb1 hnot
        obtain ⟨c2, s2⟩ := ha hek
        exact ⟨c1.trans c2, s1.trans s2⟩
      · have hin' : e1.key ∈ ks := by
          rw [← hke]
          rcases List.mem_cons.mp hin with hh | hh
          · exact absurd hh hek
          · exact hh
        obtain ⟨c1, s1⟩ := ha1 hin'
        obtain ⟨c2, _⟩ := hb hek
        exact ⟨by rw [c1, c2], s1⟩
    · intro hnin
      have hek : e.key ≠ k := fun hh => hnin (hh ▸ List.mem_cons_self ..)
      have hnot : e1.key ∉ ks := by
        rw [← hke]; exact fun hh => hnin (List.mem_cons_of_mem _ hh)
      obtain ⟨c1, s1⟩ := hb1 hnot
      obtain ⟨c2, s2⟩ := hb hek
      exact ⟨c1.trans c2, s1.trans s2⟩

/-- on the age list, the model's idleness test is the ghost's -/
theorem Ord.idle_eq (h : Ord cap tick num den g T s) (now : Time) {k : Key} (hk : k ∈ s.age) :
    idle s now k = decide (g.stamp k + tick < now) := by
  obtain ⟨e, hg, hke, hm⟩ := getE_of_mem_keys ((h.age_mem k).mp hk)
  unfold idle
  rw [hg]
  simp only [h.stamp_eq e hm, hke, h.tick_eq]

theorem Ord.takeWhile_idle (h : Ord cap tick num den g T s) (now : Time) :
    s.age.takeWhile (idle s now) = s.age.filter (fun k => decide (g.stamp k + tick < now)) := by
  rw [takeWhile_congr_mem (fun k hk => h.idle_eq now hk)]
  refine takeWhile_eq_filter_of_sorted g.stamp _ h.age_sorted ?_
  intro a b hab hb
  simp only [decide_eq_true_eq] at hb ⊢
  exact time_add_lt_of_le hab hb

theorem Ord.dropWhile_idle (h : Ord cap tick num den g T s) (now : Time) :
    s.age.dropWhile (idle s now) = s.age.filter (fun k => !decide (g.stamp k + tick < now)) := by
  rw [dropWhile_congr_mem (fun k hk => h.idle_eq now hk)]
  refine dropWhile_eq_filter_of_sorted g.stamp _ h.age_sorted ?_
  intro a b hab hb
  simp only [decide_eq_true_eq] at hb ⊢
  exact time_add_lt_of_le hab hb

/-- `do_dynamic_age` is an aging point of the ghost -/
theorem Ord.dynAge (h : Ord cap tick num den g T s) {now : Time} (hT : T ≤ now) :
    Ord cap tick num den (g.ageAt (keys s.ents) tick num den now).1 now (dynAge s now).1 ∧
      (dynAge s now).2 = (g.ageAt (keys s.ents) tick num den now).2 ∧
      ∀ x, x ∈ keys (dynAge s now).1.ents ↔ x ∈ keys s.ents := by
  have hold := h.takeWhile_idle now
  have hyoung := h.dropWhile_idle now
  -- membership in the aged part
  have hmem_old : ∀ x, x ∈ s.age.filter (fun k => decide (g.stamp k + tick < now)) ↔
      (x ∈ keys s.ents ∧ decide (g.stamp x + tick < now) = true) := by
    intro x; rw [List.mem_filter, h.age_mem x]
  have hold_nodup : (s.age.filter (fun k => decide (g.stamp k + tick < now))).Nodup :=
    List.Pairwise.filter _ h.age_nodup
  obtain ⟨f1, f2, f3, f4⟩ := foldl_ageOne_ord now s.num s.den
    (s.age.filter (fun k => decide (g.stamp k + tick < now))) hold_nodup
    (fun k hk => ((hmem_old k).mp hk).1) h.nodup h.sorted
  have hents : (Lfuda.dynAge s now).1.ents =
      (s.age.filter (fun k => decide (g.stamp k + tick < now))).foldl (ageOne now s.num s.den) s.ents := by
    show (s.age.takeWhile (idle s now)).foldl _ _ = _
    rw [hold]
  have hage : (Lfuda.dynAge s now).1.age =
      s.age.filter (fun k => !decide (g.stamp k + tick < now)) ++
        (s.age.filter (fun k => decide (g.stamp k + tick < now))).reverse := by
    show s.age.dropWhile (idle s now) ++ (s.age.takeWhile (idle s now)).reverse = _
    rw [hold, hyoung]
  -- the aged ghost, pointwise
  have gcnt : ∀ x, ((g.ageAt (keys s.ents) tick num den now).1).cnt x =
      if x ∈ keys s.ents ∧ decide (g.stamp x + tick < now) = true then g.cnt x * num / den
      else g.cnt x := fun _ => rfl
  have gstamp : ∀ x, ((g.ageAt (keys s.ents) tick num den now).1).stamp x =
      if x ∈ keys s.ents ∧ decide (g.stamp x + tick < now) = true then now
      else g.stamp x := fun _ => rfl
  have gstamp_le : ∀ x ∈ s.age, ((g.ageAt (keys s.ents) tick num den now).1).stamp x ≤ now := by
    intro x hx
    rw [gstamp]
    split
    · exact Nat.le_refl _
    · exact Nat.le_trans (h.stamp_le x hx) hT
  refine ⟨?_, ?_, ?_⟩
  · refine
      { cap_eq := h.cap_eq, tick_eq := h.tick_eq, num_eq := h.num_eq, den_eq := h.den_eq,
        nodup := ?_, age_nodup := ?_, age_mem := ?_, cnt_eq := ?_, stamp_eq := ?_, sorted := ?_,
        age_sorted := ?_, stamp_le := ?_ }
    · rw [hents]; exact f1
    · rw [hage, List.nodup_append]
      refine ⟨List.Pairwise.filter _ h.age_nodup, ?_, ?_⟩
      · rw [(List.reverse_perm _).nodup_iff]; exact hold_nodup
      · intro a ha b hb hab
        subst hab
        rw [List.mem_reverse] at hb
        have h1 := (List.mem_filter.mp ha).2
        have h2 := (List.mem_filter.mp hb).2
        rw [h2] at h1
        exact absurd h1 (by simp)
    · intro x
      rw [hage, hents, f3 x, List.mem_append, List.mem_reverse, List.mem_filter, List.mem_filter,
        h.age_mem x]
      constructor
      · rintro (hx | hx) <;> exact hx.1
      · intro hx
        cases hd : decide (g.stamp x + tick < now) with
        | true => exact Or.inr ⟨hx, rfl⟩
        | false => exact Or.inl ⟨hx, rfl⟩
    · intro e' he'
      rw [hents] at he'
      obtain ⟨e, he, hke, ha, hb⟩ := f4 e' he'
      rw [gcnt, ← hke]
      by_cases hin : e.key ∈ s.age.filter (fun k => decide (g.stamp k + tick < now))
      · rw [if_pos ((hmem_old _).mp hin), (ha hin).1, h.cnt_eq e he, h.num_eq, h.den_eq]
      · rw [if_neg (fun hh => hin ((hmem_old _).mpr hh)), (hb hin).1, h.cnt_eq e he]
    · intro e' he'
      rw [hents] at he'
      obtain ⟨e, he, hke, ha, hb⟩ := f4 e' he'
      rw [gstamp, ← hke]
      by_cases hin : e.key ∈ s.age.filter (fun k => decide (g.stamp k + tick < now))
      · rw [if_pos ((hmem_old _).mp hin), (ha hin).2]
      · rw [if_neg (fun hh => hin ((hmem_old _).mpr hh)), (hb hin).2, h.stamp_eq e he]
    · rw [hents]; exact f2
    · rw [hage, List.pairwise_append]
      refine ⟨?_, ?_, ?_⟩
      · refine List.Pairwise.imp_of_mem ?_ (List.Pairwise.filter _ h.age_sorted)
        intro a b ha hb hab
        have ha2 := (List.mem_filter.mp ha).2
        have hb2 := (List.mem_filter.mp hb).2
        simp only [Bool.not_eq_true', decide_eq_false_iff_not] at ha2 hb2
        rw [gstamp, gstamp, if_neg (fun hh => ha2 (of_decide_eq_true hh.2)),
          if_neg (fun hh => hb2 (of_decide_eq_true hh.2))]
        exact hab
      · apply pairwise_of_forall_mem
        intro a ha b hb
        rw [List.mem_reverse] at ha hb
        rw [gstamp, gstamp, if_pos ((hmem_old a).mp ha), if_pos ((hmem_old b).mp hb)]
        exact Nat.le_refl _
      · intro a ha b hb
        rw [List.mem_reverse] at hb
        rw [gstamp b, if_pos ((hmem_old b).mp hb)]
        exact gstamp_le a (List.mem_filter.mp ha).1
    · intro x hx
      rw [hage, List.mem_append, List.mem_reverse] at hx
      have hx' : x ∈ s.age := by
        rcases hx with hx | hx <;> exact (List.mem_filter.mp hx).1
      exact gstamp_le x hx'
  · show (s.age.takeWhile (idle s now)).length = ((keys s.ents).filter _).length
    rw [hold]
    exact length_filter_eq_of_nodup h.age_nodup h.nodup h.age_mem _
  · intro x; rw [hents]; exact f3 x

/-- `do_prune` is an aging point; it only removes keys -/
theorem Ord.prune (h : Ord cap tick num den g T s) {now : Time} (hT : T ≤ now) :
    Ord cap tick num den (g.ageAt (keys s.ents) tick num den now).1 now (prune s now) ∧
      ∀ x, x ∈ keys (prune s now).ents → x ∈ keys s.ents := by
  obtain ⟨h1, _, h3⟩ := h.dynAge hT
  cases hl : (Lfuda.dynAge s now).1.ents with
  | nil =>
    have hp : Lfuda.prune s now = (Lfuda.dynAge s now).1 := by simp only [Lfuda.prune, hl]
    rw [hp]
    exact ⟨h1, fun x hx => (h3 x).mp hx⟩
  | cons e t =>
    have hp : Lfuda.prune s now = Lfuda.removeKey (Lfuda.dynAge s now).1 e.key := by
      simp only [Lfuda.prune, hl]
    rw [hp]
    refine ⟨h1.removeKey e.key, ?_⟩
    intro x hx
    exact (h3 x).mp (mem_keys_delE.mp hx).1

theorem Ord.insert1 (h : Ord cap tick num den g T s) {now : Time} (hT : T ≤ now)
    (k : Key) (v : Val) (a : Allow) (d : Time) :
    Ord cap tick num den
      (daStep cap tick num den (keys s.ents) now g (.ins k v a d (insert1 s now k v a).2)) now
      (insert1 s now k v a).1 := by
  cases hg : getE s.ents k with
  | some e0 =>
    have hk : k ∈ keys s.ents := getE_isSome_iff.mp (by simp [hg])
    have hek := getE_key hg
    by_cases ha : a.upd = true
    · simp only [Lfuda.insert1, hg, ha, if_true, daStep, if_pos hk]
      subst hek
      exact h.access hT (e := { e0 with val := v }) (e0 := e0) hg rfl
    · simp only [Lfuda.insert1, hg, ha, Bool.false_eq_true, if_false, daStep]
      exact h.mono hT
  | none =>
    have hk : k ∉ keys s.ents := getE_eq_none_iff.mp hg
    by_cases ha : a.ins = true
    · have hlen : (keys s.ents).length = s.ents.length := by simp [keys]
      by_cases hfull : s.ents.length ≥ s.cap
      · have hfull' : cap ≤ (keys s.ents).length := by rw [hlen, ← h.cap_eq]; exact hfull
        simp only [Lfuda.insert1, hg, ha, if_true, hfull, daStep, if_neg hk, if_pos hfull']
        obtain ⟨hp, hsub⟩ := h.prune hT (now := now)
        exact hp.put (Nat.le_refl _) (e := { key := k, val := v, cnt := 1, stamp := now })
          (fun hh => hk (hsub k hh)) rfl (by simp [DA.create]) (by simp [DA.create])
          (by intro x hx; simp [DA.create, hx])
      · have hfull' : ¬ cap ≤ (keys s.ents).length := by rw [hlen, ← h.cap_eq]; exact hfull
        simp only [Lfuda.insert1, hg, ha, if_true, hfull, if_false, daStep, if_neg hk, if_neg hfull']
        exact h.put hT (e := { key := k, val := v, cnt := 1, stamp := now })
          hk rfl (by simp [DA.create]) (by simp [DA.create])
          (by intro x hx; simp [DA.create, hx])
    · simp only [Lfuda.insert1, hg, ha, Bool.false_eq_true, if_false, daStep]
      exact h.mono hT

theorem Ord.find1 (h : Ord cap tick num den g T s) {now : Time} (hT : T ≤ now)
    (k : Key) (pk : Bool) :
    Ord cap tick num den
      (daStep cap tick num den (keys s.ents) now g (.look k pk (find1 s now k pk).2)) now
      (find1 s now k pk).1 := by
  cases hg : getE s.ents k with
  | some e0 =>
    have hek := getE_key hg
    cases pk with
    | true =>
      simp only [Lfuda.find1, hg, if_true, daStep]
      exact h.mono hT
    | false =>
      simp only [Lfuda.find1, hg, Bool.false_eq_true, if_false, daStep]
      subst hek
      exact h.access hT (e := e0) (e0 := e0) hg rfl
  | none =>
    cases pk <;> simp only [Lfuda.find1, hg, daStep] <;> exact h.mono hT

theorem Ord.erase1 (h : Ord cap tick num den g T s) {now : Time} (hT : T ≤ now) (k : Key) :
    Ord cap tick num den g now (erase1 s k).1 := by
  unfold Lfuda.erase1
  cases getE s.ents k with
  | some e0 => exact (h.removeKey k).mono hT
  | none => exact h.mono hT

/-- every atom preserves the order invariant, the ghost moving by `daStep` -/
theorem Ord.step (h : Ord cap tick num den g T s) {now : Time} (hT : T ≤ now) {x : Atom}
    {s' : LfudaState} (hs : CStep core s now x s') :
    Ord cap tick num den (daStep cap tick num den (keys s.ents) now g x) now s' := by
  cases hs with
  | pre => exact h.mono hT
  | ins k v a ttl => exact h.insert1 hT k v a _
  | look k peek => exact h.find1 hT k peek
  | del k =>
    have : daStep cap tick num den (keys s.ents) now g (.del k (core.erase1 s k).2) = g := by
      simp only [daStep]
    rw [this]; exact h.erase1 hT k
  | clear hc => simp [core] at hc
  | reap => exact h.mono hT
  | age => exact (h.dynAge hT).1
  | setTtl t => exact h.mono hT
  | obsSize => exact h.mono hT
  | obsEmpty => exact h.mono hT
  | obsCap => exact h.mono hT

end Lfuda

/-! ## inversion of atom-level steps -/

theorem CStep.da_look_inv {σ : Type} {c : Core σ} {s s' : σ} {now : Time} {k : Key} {pk : Bool}
    {r : Option (Val × Nat)} (h : CStep c s now (.look k pk r) s') :
    r = (c.find1 s now k pk).2 ∧ s' = (c.find1 s now k pk).1 := by
  generalize hx : Atom.look k pk r = x at h
  cases h <;> cases hx
  exact ⟨rfl, rfl⟩

theorem CStep.da_age_inv {σ : Type} {c : Core σ} {s s' : σ} {now : Time} {n : Nat}
    (h : CStep c s now (.age n) s') : n = (c.age s now).2 ∧ s' = (c.age s now).1 := by
  generalize hx : Atom.age n = x at h
  cases h <;> cases hx
  exact ⟨rfl, rfl⟩

theorem CStep.da_ins_inv {σ : Type} {c : Core σ} {s s' : σ} {now : Time} {k : Key} {v : Val}
    {al : Allow} {d : Time} {ok : Bool} (h : CStep c s now (.ins k v al d ok) s') :
    ∃ ttl, ok = (c.insert1 s now k v al ttl).2 ∧ s' = (c.insert1 s now k v al ttl).1 := by
  generalize hx : Atom.ins k v al d ok = x at h
  cases h <;> cases hx
  exact ⟨_, rfl, rfl⟩

/-! ## the invariant along monotone runs -/

theorem STrace.monotone_snoc {σ : Type} {p : STrace σ} {y : σ × Time × Atom}
    (h : STrace.monotone (p ++ [y])) : STrace.monotone p ∧ ∀ x ∈ p, x.2.1 ≤ y.2.1 := by
  unfold STrace.monotone at h
  rw [List.pairwise_append] at h
  exact ⟨h.1, fun x hx => h.2.2 x hx y (List.mem_cons_self ..)⟩

theorem daGhost_snoc {σ : Type} (cap tick num den : Nat) (keysOf : σ → List Key) (p : STrace σ)
    (s : σ) (now : Time) (x : Atom) :
    daGhost cap tick num den keysOf (p ++ [(s, now, x)]) =
      daStep cap tick num den (keysOf s) now (daGhost cap tick num den keysOf p) x := by
  simp only [daGhost, List.foldl_append, List.foldl_cons, List.foldl_nil]

namespace Lfuda

theorem ord_run (cap tickMs num den : Nat) {tr : STrace LfudaState} {s : LfudaState}
    (hrun : CRun core (init cap tickMs num den) tr s) (hmono : STrace.monotone tr) :
    ∃ T, Ord cap (tickMs * msNs) num den
        (daGhost cap (tickMs * msNs) num den (fun s => keys s.ents) tr) T s ∧
      ∀ now, (∀ x ∈ tr, x.2.1 ≤ now) → T ≤ now := by
  have key := CRun.invariant (c := core) (pre := [])
    (P := fun p s => STrace.monotone p →
      ∃ T, Ord cap (tickMs * msNs) num den
          (daGhost cap (tickMs * msNs) num den (fun s => keys s.ents) p) T s ∧
        ∀ now, (∀ x ∈ p, x.2.1 ≤ now) → T ≤ now)
    (by
      intro p s now x s' ih hs hm
      obtain ⟨hm1, hm2⟩ := STrace.monotone_snoc hm
      obtain ⟨T, hord, hT⟩ := ih hm1
      refine ⟨now, ?_, ?_⟩
      · rw [daGhost_snoc]
        exact hord.step (hT now hm2) hs
      · intro now' hall
        exact hall (s, now, x) (by simp))
    (by
      intro _
      exact ⟨0, ord_init cap tickMs num den, fun _ _ => Nat.zero_le _⟩)
    hrun
  simpa using key hmono

end Lfuda

end Verif
