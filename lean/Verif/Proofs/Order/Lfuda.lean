import Verif.Spec.Order
import Verif.Proofs.Refine.Lfuda
import Verif.Proofs.Order.LfudaInv
/-!
# C14 (and C11 for lfuda_cache): counts with dynamic aging
-/
namespace Verif
open Verif.Spec

/-- the aging ghost of an lfuda history -/
def lfudaGhost (cap tickMs num den : Nat) (tr : STrace LfudaState) : DA :=
  daGhost cap (tickMs * msNs) num den (fun s => keys s.ents) tr

/-- **C14/C11 (counts).** Every lookup that finds an entry reports the count the aging ghost holds for
it after this atom (non-peek lookups count themselves). -/
theorem C14_lfuda_count (cap tickMs num den : Nat) (hcap : 0 < cap) (htick : 0 < tickMs)
    {tr : STrace LfudaState} {s s' : LfudaState} {now : Time} {k : Key} {pk : Bool} {v : Val} {n : Nat}
    (hrun : CRun Lfuda.core (Lfuda.init cap tickMs num den) tr s)
    (hstep : CStep Lfuda.core s now (.look k pk (some (v, n))) s')
    (hmono : STrace.monotone (tr ++ [(s, now, .look k pk (some (v, n)))])) :
    n = (lfudaGhost cap tickMs num den (tr ++ [(s, now, .look k pk (some (v, n)))])).cnt k := by
  obtain ⟨hm1, hm2⟩ := STrace.monotone_snoc hmono
  obtain ⟨T, hord, hT⟩ := Lfuda.ord_run cap tickMs num den hrun hm1
  obtain ⟨hr, _⟩ := CStep.da_look_inv hstep
  change some (v, n) = (Lfuda.find1 s now k pk).2 at hr
  unfold lfudaGhost
  rw [daGhost_snoc]
  cases hg : getE s.ents k with
  | none => simp [Lfuda.find1, hg] at hr
  | some e0 =>
    have hc := hord.cnt_eq e0 (getE_mem hg)
    rw [getE_key hg] at hc
    cases pk with
    | true =>
      simp only [Lfuda.find1, hg, if_true, Option.some.injEq, Prod.mk.injEq] at hr
      simp only [daStep]
      rw [hr.2, hc]
    | false =>
      simp only [Lfuda.find1, hg, Bool.false_eq_true, if_false, Option.some.injEq,
        Prod.mk.injEq] at hr
      simp only [daStep, DA.use, if_true]
      rw [hr.2, hc]

/-- **C14 (dynamically_age).** `dynamically_age()` returns the number of resident entries that had not
been used or aged for strictly longer than the tick. -/
theorem C14_lfuda_age (cap tickMs num den : Nat) (hcap : 0 < cap) (htick : 0 < tickMs)
    {tr : STrace LfudaState} {s s' : LfudaState} {now : Time} {n : Nat}
    (hrun : CRun Lfuda.core (Lfuda.init cap tickMs num den) tr s)
    (hstep : CStep Lfuda.core s now (.age n) s')
    (hmono : STrace.monotone (tr ++ [(s, now, .age n)])) :
    n = ((lfudaGhost cap tickMs num den tr).ageAt (keys s.ents) (tickMs * msNs) num den now).2 := by
  obtain ⟨hm1, hm2⟩ := STrace.monotone_snoc hmono
  obtain ⟨T, hord, hT⟩ := Lfuda.ord_run cap tickMs num den hrun hm1
  obtain ⟨hn, _⟩ := CStep.da_age_inv hstep
  change n = (Lfuda.dynAge s now).2 at hn
  rw [hn]
  exact (hord.dynAge (hT now hm2)).2.1

/-- **C14/C11 (victim).** When an accepted insert of a new key finds the cache full, the residents are
aged first and the entry removed then has a minimal count among them. -/
theorem C14_lfuda_victim (cap tickMs num den : Nat) (hcap : 0 < cap) (htick : 0 < tickMs)
    {tr : STrace LfudaState} {s s' : LfudaState} {now : Time} {k : Key} {v : Val} {al : Allow} {d : Time}
    (hrun : CRun Lfuda.core (Lfuda.init cap tickMs num den) tr s)
    (hstep : CStep Lfuda.core s now (.ins k v al d true) s')
    (hmono : STrace.monotone (tr ++ [(s, now, .ins k v al d true)]))
    (hnew : k ∉ keys s.ents) (hfull : cap ≤ s.ents.length) :
    ∃ w, Evicts (keys s.ents) (keys s'.ents) k w ∧
      let aged := ((lfudaGhost cap tickMs num den tr).ageAt (keys s.ents) (tickMs * msNs) num den now).1
      ∀ u ∈ keys s.ents, aged.cnt w ≤ aged.cnt u := by
  obtain ⟨hm1, hm2⟩ := STrace.monotone_snoc hmono
  obtain ⟨T, hord, hT⟩ := Lfuda.ord_run cap tickMs num den hrun hm1
  obtain ⟨ttl, hok, hs'⟩ := CStep.da_ins_inv hstep
  change true = (Lfuda.insert1 s now k v al).2 at hok
  change s' = (Lfuda.insert1 s now k v al).1 at hs'
  have hg : getE s.ents k = none := getE_eq_none_iff.mpr hnew
  have hfull' : s.ents.length ≥ s.cap := by rw [hord.cap_eq]; exact hfull
  by_cases ha : al.ins = true
  · simp only [Lfuda.insert1, hg, ha, if_true, hfull'] at hs'
    obtain ⟨h1, _, h3⟩ := hord.dynAge (hT now hm2)
    cases hl : (Lfuda.dynAge s now).1.ents with
    | nil =>
      exfalso
      cases hse : s.ents with
      | nil => rw [hse] at hfull; simp at hfull; omega
      | cons e0 t0 =>
        have hm : e0.key ∈ keys s.ents := by rw [hse]; simp [keys]
        have := (h3 e0.key).mpr hm
        rw [hl] at this
        simp [keys] at this
    | cons e t =>
      have hp : Lfuda.prune s now = Lfuda.removeKey (Lfuda.dynAge s now).1 e.key := by
        simp only [Lfuda.prune, hl]
      rw [hp] at hs'
      have hke : keys s'.ents =
          keys (fileCnt (delE (Lfuda.dynAge s now).1.ents e.key)
            { key := k, val := v, cnt := 1, stamp := now }) := by rw [hs']; rfl
      have hew : e.key ∈ keys s.ents := (h3 e.key).mp (by rw [hl]; simp [keys])
      have hne : e.key ≠ k := fun hh => hnew (hh ▸ hew)
      refine ⟨e.key, ⟨hew, hne, ?_, ?_⟩, ?_⟩
      · rw [hke, mem_keys_fileCnt]
        rintro (hh | hh)
        · exact hne hh
        · exact not_mem_keys_delE_self _ _ hh
      · intro u hu hue
        rw [hke, mem_keys_fileCnt]
        exact Or.inr (mem_keys_delE.mpr ⟨(h3 u).mpr hu, hue⟩)
      · intro aged u hu
        have hu' := (h3 u).mpr hu
        obtain ⟨eu, heu, hku⟩ := exists_mem_of_mem_keys hu'
        have hsorted := h1.sorted
        unfold DaCntSorted at hsorted
        have hce := h1.cnt_eq e (by rw [hl]; exact List.mem_cons_self ..)
        have hcu := h1.cnt_eq eu heu
        rw [hl] at hsorted heu
        rw [List.pairwise_cons] at hsorted
        have hle : e.cnt ≤ eu.cnt := by
          rcases List.mem_cons.mp heu with hh | hh
          · rw [hh]; exact Nat.le_refl _
          · exact hsorted.1 eu hh
        rw [hku] at hcu
        show ((lfudaGhost cap tickMs num den tr).ageAt (keys s.ents) (tickMs * msNs) num den now).1.cnt e.key
          ≤ ((lfudaGhost cap tickMs num den tr).ageAt (keys s.ents) (tickMs * msNs) num den now).1.cnt u
        unfold lfudaGhost
        rw [← hce, ← hcu]
        exact hle
  · simp [Lfuda.insert1, hg, ha] at hok

end Verif
