import Verif.Spec.Order
import Verif.Proofs.Refine.Lfuda
/-!
# C14 (and C11 for lfuda_cache): counts with dynamic aging
-/
namespace Verif
open Verif.Spec

/-- the aging ghost of an lfuda history -/
def lfudaGhost (cap tickMs num den : Nat) (tr : STrace LfudaState) : DA :=
  daGhost cap (tickMs * msNs) num den (fun s => keys s.ents) tr

/-- **C14/C11 (counts).** Every lookup that finds an entry reports the count the aging ghost holds for
it after this atom (non-peek lookups count themselves). -/
theorem C14_lfuda_count (cap tickMs num den : Nat) (hcap : 0 < cap) (htick : 0 < tickMs)
    {tr : STrace LfudaState} {s s' : LfudaState} {now : Time} {k : Key} {pk : Bool} {v : Val} {n : Nat}
    (hrun : CRun Lfuda.core (Lfuda.init cap tickMs num den) tr s)
    (hstep : CStep Lfuda.core s now (.look k pk (some (v, n))) s')
    (hmono : STrace.monotone (tr ++ [(s, now, .look k pk (some (v, n)))])) :
    n = (lfudaGhost cap tickMs num den (tr ++ [(s, now, .look k pk (some (v, n)))])).cnt k := by
  sorry

/-- **C14 (dynamically_age).** `dynamically_age()` returns the number of resident entries that had not
been used or aged for strictly longer than the tick. -/
theorem C14_lfuda_age (cap tickMs num den : Nat) (hcap : 0 < cap) (htick : 0 < tickMs)
    {tr : STrace LfudaState} {s s' : LfudaState} {now : Time} {n : Nat}
    (hrun : CRun Lfuda.core (Lfuda.init cap tickMs num den) tr s)
    (hstep : CStep Lfuda.core s now (.age n) s')
    (hmono : STrace.monotone (tr ++ [(s, now, .age n)])) :
    n = ((lfudaGhost cap tickMs num den tr).ageAt (keys s.ents) (tickMs * msNs) num den now).2 := by
  sorry

/-- **C14/C11 (victim).** When an accepted insert of a new key finds the cache full, the residents are
aged first and the entry removed then has a minimal count among them. -/
theorem C14_lfuda_victim (cap tickMs num den : Nat) (hcap : 0 < cap) (htick : 0 < tickMs)
    {tr : STrace LfudaState} {s s' : LfudaState} {now : Time} {k : Key} {v : Val} {al : Allow} {d : Time}
    (hrun : CRun Lfuda.core (Lfuda.init cap tickMs num den) tr s)
    (hstep : CStep Lfuda.core s now (.ins k v al d true) s')
    (hmono : STrace.monotone (tr ++ [(s, now, .ins k v al d true)]))
    (hnew : k ∉ keys s.ents) (hfull : cap ≤ s.ents.length) :
    ∃ w, Evicts (keys s.ents) (keys s'.ents) k w ∧
      let aged := ((lfudaGhost cap tickMs num den tr).ageAt (keys s.ents) (tickMs * msNs) num den now).1
      ∀ u ∈ keys s.ents, aged.cnt w ≤ aged.cnt u := by
  sorry

end Verif
