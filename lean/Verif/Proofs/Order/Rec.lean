import Verif.Spec.Order
import Verif.Proofs.Refine.Rec
/-!
# C10 (lru_cache) and C13 (mru_cache): the victim by recency of use
-/
namespace Verif
open Verif.Spec

namespace Rec

/-! ## `Sub g l`: the list `l` is the ghost `g` restricted to the members of `l` -/

/-- `l` is `g` restricted to the members of `l`, in the order of `g` -/
def Sub (g l : List Key) : Prop := l = g.filter (fun x => decide (x ∈ l))

theorem Sub.nil : Sub [] [] := rfl

theorem Sub.filter {g l : List Key} (h : Sub g l) (p : Key → Bool) : Sub g (l.filter p) := by
  unfold Sub at *
  calc l.filter p = (g.filter (fun x => decide (x ∈ l))).filter p := congrArg (List.filter p) h
    _ = g.filter (fun x => decide (x ∈ l.filter p)) := by
        rw [List.filter_filter]
        apply List.filter_congr
        intro x _
        simp [List.mem_filter, Bool.and_comm]

theorem Sub.snoc {g l : List Key} (h : Sub g l) {k : Key} (hk : k ∉ l) :
    Sub (dropKey g k ++ [k]) (l ++ [k]) := by
  unfold Sub at *
  have h1 : (dropKey g k).filter (fun x => decide (x ∈ l ++ [k])) = l := by
    unfold dropKey
    rw [List.filter_filter]
    conv => rhs; rw [h]
    apply List.filter_congr
    intro x _
    by_cases hx : x = k
    · subst hx; simp [hk]
    · simp [hx]
  rw [List.filter_append, h1]
  simp

theorem Sub.use {g l : List Key} (h : Sub g l) (k : Key) :
    Sub (dropKey g k ++ [k]) (dropKey l k ++ [k]) := by
  apply Sub.snoc (h.filter _)
  simp

theorem Sub.del {g l : List Key} (h : Sub g l) (k : Key) : Sub (dropKey g k) (dropKey l k) := by
  have h2 := h.filter (fun x => !decide (x = k))
  unfold Sub at *
  have : (dropKey g k).filter (fun x => decide (x ∈ dropKey l k)) =
      g.filter (fun x => decide (x ∈ dropKey l k)) := by
    unfold dropKey
    rw [List.filter_filter]
    apply List.filter_congr
    intro x _
    by_cases hx : x = k
    · subst hx; simp
    · simp [hx]
  rw [this]
  exact h2

theorem dropKey_head {w : Key} {t : List Key} (hn : (w :: t).Nodup) : dropKey (w :: t) w = t := by
  simp only [List.nodup_cons] at hn
  unfold dropKey
  rw [List.filter_cons]
  simp only [decide_true, Bool.not_true, Bool.false_eq_true, if_false]
  rw [List.filter_eq_self]
  intro x hx
  have : x ≠ w := fun h => hn.1 (h ▸ hx)
  simp [this]

theorem dropKey_last {w : Key} {t : List Key} (hn : (t ++ [w]).Nodup) : dropKey (t ++ [w]) w = t := by
  have hd : w ∉ t := by
    intro hm
    exact (List.nodup_append.mp hn).2.2 _ hm w (by simp) rfl
  unfold dropKey
  rw [List.filter_append]
  have : t.filter (fun x => !decide (x = w)) = t := by
    rw [List.filter_eq_self]
    intro x hx
    have : x ≠ w := fun h => hd (h ▸ hx)
    simp [this]
  rw [this]
  simp

theorem keys_prune (vic : Victim) {l : List Entry} (hn : (keys l).Nodup) :
    ∃ w, keys (prune vic l) = dropKey (keys l) w := by
  cases vic with
  | oldest =>
    cases l with
    | nil => exact ⟨0, rfl⟩
    | cons e t => exact ⟨e.key, (dropKey_head (w := e.key) (t := keys t) hn).symm⟩
  | newest =>
    by_cases hl : l = []
    · subst hl; exact ⟨0, rfl⟩
    · obtain ⟨t, e, rfl⟩ : ∃ t e, l = t ++ [e] :=
        ⟨l.dropLast, l.getLast hl, (List.dropLast_concat_getLast hl).symm⟩
      refine ⟨e.key, ?_⟩
      simp only [prune, List.dropLast_concat]
      rw [keys_append] at hn ⊢
      exact (dropKey_last (w := e.key) (t := keys t) hn).symm

theorem keys_touch (l : List Entry) (e : Entry) :
    keys (touch l e) = dropKey (keys l) e.key ++ [e.key] := by
  unfold touch
  rw [keys_append, keys_delE]
  rfl

theorem useOrder_snoc {σ : Type} (p : STrace σ) (x : σ × Time × Atom) :
    useOrder (p ++ [x]) = useStep (useOrder p) x.2.2 := by
  simp [useOrder, List.foldl_append]

/-- the invariant along runs: `Rec.Inv`, and the model's list is the recency ghost restricted to the
resident keys -/
def OInv (cap : Nat) (p : STrace RecState) (s : RecState) : Prop :=
  Inv cap s ∧ Sub (useOrder p) (keys s.ents)

theorem oinv_step (vic : Victim) (cap : Nat) (p : STrace RecState) (s : RecState) (now : Time)
    (x : Atom) (s' : RecState) (h : OInv cap p s) (hs : CStep (core vic) s now x s') :
    OInv cap (p ++ [(s, now, x)]) s' := by
  refine ⟨((refines vic cap).cstep h.1 hs).1, ?_⟩
  rw [useOrder_snoc]
  have hi := h.1
  have ho := h.2
  cases hs with
  | pre => exact ho
  | ins k v a ttl =>
    show Sub (useStep (useOrder p) (.ins k v a _ (insert1 vic s k v a).2)) (keys (insert1 vic s k v a).1.ents)
    unfold insert1
    cases hg : getE s.ents k with
    | some e =>
      have hek := getE_key hg
      by_cases ha : a.upd = true
      · simp only [ha, if_true, useStep]
        rw [keys_touch]
        show Sub _ (dropKey (keys s.ents) e.key ++ [e.key])
        rw [hek]
        exact ho.use k
      · simp only [ha, Bool.false_eq_true, if_false, useStep]
        exact ho
    | none =>
      have hk : k ∉ keys s.ents := getE_eq_none_iff.mp hg
      by_cases ha : a.ins = true
      · simp only [ha, if_true, useStep]
        rw [keys_append]
        show Sub _ (_ ++ [k])
        by_cases hfull : s.ents.length ≥ s.cap
        · simp only [hfull, if_true]
          obtain ⟨w, hw⟩ := keys_prune vic hi.nodup
          rw [hw]
          apply Sub.snoc (ho.filter _)
          intro hm
          exact hk (List.mem_filter.mp hm).1
        · simp only [hfull, if_false]
          exact ho.snoc hk
      · simp only [ha, Bool.false_eq_true, if_false, useStep]
        exact ho
  | look k peek =>
    show Sub (useStep (useOrder p) (.look k peek (find1 s k peek).2)) (keys (find1 s k peek).1.ents)
    unfold find1
    cases hg : getE s.ents k with
    | some e =>
      have hek := getE_key hg
      cases peek with
      | true => simp only [if_true, useStep]; exact ho
      | false =>
        simp only [Bool.false_eq_true, if_false, useStep]
        rw [keys_touch, hek]
        exact ho.use k
    | none => simp only [useStep]; exact ho
  | del k =>
    show Sub (useStep (useOrder p) (.del k (erase1 s k).2)) (keys (erase1 s k).1.ents)
    unfold erase1
    cases hg : getE s.ents k with
    | some e =>
      simp only [useStep]
      rw [keys_delE]
      exact ho.del k
    | none => simp only [useStep]; exact ho
  | clear hc => simp [core] at hc
  | reap => exact ho
  | age => exact ho
  | setTtl t => exact ho
  | obsSize => exact ho
  | obsEmpty => exact ho
  | obsCap => exact ho

theorem oinv_run (vic : Victim) {cap : Nat} (hcap : 0 < cap) {tr : STrace RecState} {s : RecState}
    (hrun : CRun (core vic) (init cap) tr s) : OInv cap tr s := by
  have := CRun.invariant (P := OInv cap) (pre := []) (oinv_step vic cap)
    ⟨inv_init hcap, Sub.nil⟩ hrun
  simpa using this

/-- what an accepted insert of a new key into a full cache does -/
theorem ins_full (vic : Victim) {cap : Nat} {s s' : RecState} {now : Time} {k : Key} {v : Val}
    {al : Allow} {d : Time} (hi : Inv cap s)
    (hstep : CStep (core vic) s now (.ins k v al d true) s')
    (hnew : k ∉ keys s.ents) (hfull : cap ≤ s.ents.length) :
    s'.ents = prune vic s.ents ++ [{ key := k, val := v }] := by
  generalize hx : Atom.ins k v al d true = x at hstep
  cases hstep with
  | ins k' v' a' ttl =>
    injection hx with h1 h2 h3 h4 h5
    subst h1 h2 h3
    have hg : getE s.ents k = none := getE_eq_none_iff.mpr hnew
    have hf : s.ents.length ≥ s.cap := by rw [hi.cap_eq]; exact hfull
    have h5' : (insert1 vic s k v al).2 = true := h5.symm
    show (insert1 vic s k v al).1.ents = _
    unfold insert1 at h5' ⊢
    simp only [hg] at h5' ⊢
    by_cases ha : al.ins = true
    · simp only [ha, if_true, hf]
    · simp [ha] at h5'
  | _ => cases hx

end Rec

/-- **C10, lru_cache.** When an accepted insert of a new key finds the cache full, the entry removed is
the resident key whose most recent use (accepted insert/update, successful non-peek lookup) is oldest. -/
theorem C10_lru (cap : Nat) (hcap : 0 < cap) {tr : STrace RecState} {s s' : RecState}
    {now : Time} {k : Key} {v : Val} {al : Allow} {d : Time}
    (hrun : CRun Lru.core (Rec.init cap) tr s)
    (hstep : CStep Lru.core s now (.ins k v al d true) s')
    (hnew : k ∉ keys s.ents) (hfull : cap ≤ s.ents.length) :
    ∃ w, firstIn (useOrder tr) (keys s.ents) = some w ∧ Evicts (keys s.ents) (keys s'.ents) k w := by
  obtain ⟨hi, ho⟩ := Rec.oinv_run .oldest hcap hrun
  have he := Rec.ins_full .oldest hi hstep hnew hfull
  have hn := hi.nodup
  cases hl : s.ents with
  | nil => rw [hl] at hfull; simp at hfull; omega
  | cons e t =>
    rw [hl] at ho hnew hn he
    simp only [keys, List.map_cons] at ho hnew hn ⊢
    refine ⟨e.key, ?_, ?_⟩
    · unfold firstIn
      rw [← List.head?_filter, ← ho]
      rfl
    · rw [he]
      simp only [List.nodup_cons, List.mem_cons, not_or] at hn hnew
      simp only [Rec.prune, List.tail_cons, List.map_append, List.map_cons, List.map_nil]
      refine ⟨by simp, fun h => hnew.1 h.symm, ?_, ?_⟩
      · simp only [List.mem_append, List.mem_singleton, not_or]
        exact ⟨hn.1, fun h => hnew.1 h.symm⟩
      · intro u hu hne
        simp only [List.mem_cons] at hu
        rcases hu with hu | hu
        · exact absurd hu hne
        · exact List.mem_append_left _ hu

/-- **C13, mru_cache.** ... the entry removed is the resident key whose most recent use is newest; the
new key then becomes the most recently used. -/
theorem C13_mru (cap : Nat) (hcap : 0 < cap) {tr : STrace RecState} {s s' : RecState}
    {now : Time} {k : Key} {v : Val} {al : Allow} {d : Time}
    (hrun : CRun Mru.core (Rec.init cap) tr s)
    (hstep : CStep Mru.core s now (.ins k v al d true) s')
    (hnew : k ∉ keys s.ents) (hfull : cap ≤ s.ents.length) :
    ∃ w, lastIn (useOrder tr) (keys s.ents) = some w ∧ Evicts (keys s.ents) (keys s'.ents) k w ∧
      lastIn (useOrder (tr ++ [(s, now, .ins k v al d true)])) (keys s'.ents) = some k := by
  have hinv := Rec.oinv_run .newest hcap hrun
  obtain ⟨hi, ho⟩ := hinv
  obtain ⟨_, ho'⟩ := Rec.oinv_step .newest cap tr s now _ s' ⟨hi, ho⟩ hstep
  have he := Rec.ins_full .newest hi hstep hnew hfull
  have hn := hi.nodup
  have hl : s.ents ≠ [] := by
    intro h0; rw [h0] at hfull; simp at hfull; omega
  obtain ⟨t, e, hte⟩ : ∃ t e, s.ents = t ++ [e] :=
    ⟨s.ents.dropLast, s.ents.getLast hl, (List.dropLast_concat_getLast hl).symm⟩
  have hlast : lastIn (useOrder (tr ++ [(s, now, .ins k v al d true)])) (keys s'.ents) = some k := by
    unfold lastIn
    rw [← ho', he, keys_append]
    simp [keys]
  rw [hte] at ho hnew hn he
  rw [hte]
  rw [keys_append] at ho hnew hn ⊢
  have hd : e.key ∉ keys t := by
    intro hm
    exact (List.nodup_append.mp hn).2.2 _ hm e.key (by simp [keys]) rfl
  refine ⟨e.key, ?_, ?_, hlast⟩
  · unfold lastIn
    rw [← ho]
    simp [keys]
  · rw [he]
    simp only [Rec.prune, List.dropLast_concat, keys_append]
    unfold Evicts
    simp only [keys, List.map_cons, List.map_nil, List.mem_append, List.mem_singleton, not_or] at hnew hd ⊢
    refine ⟨Or.inr trivial, fun h => hnew.2 h.symm, ?_, ?_⟩
    · exact ⟨hd, fun h => hnew.2 h.symm⟩
    · intro u hu hne
      rcases hu with hu | hu
      · exact Or.inl hu
      · exact absurd hu hne

end Verif
