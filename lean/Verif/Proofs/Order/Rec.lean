import Verif.Spec.Order
import Verif.Proofs.Refine.Rec
/-!
# C10 (lru_cache) and C13 (mru_cache): the victim by recency of use
-/
namespace Verif
open Verif.Spec

/-- **C10, lru_cache.** When an accepted insert of a new key finds the cache full, the entry removed is
the resident key whose most recent use (accepted insert/update, successful non-peek lookup) is oldest. -/
theorem C10_lru (cap : Nat) (hcap : 0 < cap) {tr : STrace RecState} {s s' : RecState}
    {now : Time} {k : Key} {v : Val} {al : Allow} {d : Time}
    (hrun : CRun Lru.core (Rec.init cap) tr s)
    (hstep : CStep Lru.core s now (.ins k v al d true) s')
    (hnew : k ∉ keys s.ents) (hfull : cap ≤ s.ents.length) :
    ∃ w, firstIn (useOrder tr) (keys s.ents) = some w ∧ Evicts (keys s.ents) (keys s'.ents) k w := by
  sorry

/-- **C13, mru_cache.** ... the entry removed is the resident key whose most recent use is newest; the
new key then becomes the most recently used. -/
theorem C13_mru (cap : Nat) (hcap : 0 < cap) {tr : STrace RecState} {s s' : RecState}
    {now : Time} {k : Key} {v : Val} {al : Allow} {d : Time}
    (hrun : CRun Mru.core (Rec.init cap) tr s)
    (hstep : CStep Mru.core s now (.ins k v al d true) s')
    (hnew : k ∉ keys s.ents) (hfull : cap ≤ s.ents.length) :
    ∃ w, lastIn (useOrder tr) (keys s.ents) = some w ∧ Evicts (keys s.ents) (keys s'.ents) k w ∧
      lastIn (useOrder (tr ++ [(s, now, .ins k v al d true)])) (keys s'.ents) = some k := by
  sorry

end Verif
