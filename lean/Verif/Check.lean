import Verif.Model.All
import Verif.Proto
/-!
# Correspondence check: replay the implementation's events on the model, report the first difference
-/
namespace Verif.Check
open Verif Verif.Proto

structure Diff where
  ev : Nat
  field : String
  model : String
  impl : String
  /-- properties this difference is a counterexample to (given the theorems about the model) -/
  props : List String := []
  deriving Repr

def Diff.show (d : Diff) : String :=
  s!"ev={d.ev} props={",".intercalate d.props} field={d.field} model=[{d.model}] impl=[{d.impl}]"

/-- model states of the (at most two) instances of a script -/
structure Insts where
  a : MState
  b : MState

def Insts.get (i : Insts) (n : Nat) : MState := if n = 0 then i.a else i.b
def Insts.set (i : Insts) (n : Nat) (m : MState) : Insts := if n = 0 then { i with a := m } else { i with b := m }

def isInsert : Op → Bool
  | .insert .. | .insertRange .. => true
  | _ => false

def kindOf : MState → Kind
  | .lru _ => .lru | .mru _ => .mru | .fifo _ => .fifo | .rr _ => .rr | .lfu _ => .lfu
  | .lfuda _ => .lfuda | .tlru _ => .tlru | .utlru _ => .utlru | .utmap _ => .utmap

/-- Which ordering property does a difference with the (proved) policy model contradict?
`pre`/`post` are the model's states around the call.  Only differences that the theorems turn into a
counterexample are attributed: a different *victim* of an evicting insert (the model's is the
policy's, C10–C13, C16), a different use count (C11, C14), a different aging result (C14). -/
def orderProps (nkeys : Nat) (pre post : MState) (e : Event) (field : String) : List String :=
  let kind := kindOf pre
  let mKeys := (post.sweep e.now nkeys).map (·.1)
  let iKeys := e.obs.sweep.map (·.1)
  let victimDiff := isInsert e.op && field == "sweep" && mKeys != iKeys && post.size == e.obs.size
  let countDiff := field == "sweep" && mKeys == iKeys &&
    (post.sweep e.now nkeys).map (fun (k, v, _) => (k, v)) == e.obs.sweep.map (fun (k, v, _) => (k, v))
  let countOut := field == "out" && (match e.op with | .findCount .. => true | _ => false)
  let ageOut := field == "out" && (match e.op with | .age => true | _ => false)
  -- an expired entry was resident before the call (tlru/utlru)
  let hadExpired := pre.size > (pre.sweep e.now nkeys).length
  match kind with
  | .lru => if victimDiff then ["C10"] else []
  | .mru => if victimDiff then ["C13"] else []
  | .fifo => if victimDiff then ["C12"] else []
  | .lfu => if victimDiff || countDiff || countOut then ["C11"] else []
  | .lfuda =>
    if ageOut then ["C14"]
    else if victimDiff || countDiff || countOut then ["C11", "C14"] else []
  | .tlru | .utlru => if victimDiff then (if hadExpired then ["C16"] else ["C10"]) else []
  -- rr: the model is fed the draws the harness mirrors; a first difference at an insert call (another victim, or -
  -- inside a range - what follows from another victim) may mean the implementation drew differently: marked; the
  -- script is then judged by the acceptor (any resident is a legal victim) and the spread probe
  | .rr => if isInsert e.op then ["RRDRAW"] else []
  | _ => []

/-- compare one event with the model's step; `none` = agree -/
def cmpEvent (nkeys : Nat) (m : MState) (idx : Nat) (e : Event) : MState × Option Diff :=
  let r := m.step e.now e.op
  let m' := r.1
  let sw := m'.sweep e.now nkeys
  let mk (f a b : String) : Option Diff := some ⟨idx, f, a, b, orderProps nkeys m m' e f⟩
  let d : Option Diff :=
    if r.2 ≠ e.out then mk "out" (showOut r.2) (showOut e.out)
    else if m'.size ≠ e.obs.size then mk "size" (toString m'.size) (toString e.obs.size)
    else if (m'.size == 0) ≠ e.obs.empty then mk "empty" (toString (m'.size == 0)) (toString e.obs.empty)
    else if m'.capacity ≠ e.obs.cap then mk "capacity" (toString m'.capacity) (toString e.obs.cap)
    else if sw ≠ e.obs.sweep then mk "sweep" (showSweep sw) (showSweep e.obs.sweep)
    else none
  (m', d)

def l1Loop (nkeys : Nat) : Insts → Nat → List Event → Option Diff
  | _, _, [] => none
  | st, idx, e :: es =>
    let r := cmpEvent nkeys (st.get e.inst) idx e
    match r.2 with
    | some d => some d
    | none => l1Loop nkeys (st.set e.inst r.1) (idx + 1) es

/-- the observable tier: every output, observer and sweep entry of every event equals the model's -/
def l1 (cfg : Cfg) (nkeys : Nat) (evs : List Event) : Option Diff :=
  l1Loop nkeys ⟨MState.init cfg, MState.init cfg⟩ 0 evs

/-- coverage figures of one script, measured on the implementation's events -/
structure Stat where
  events : Nat := 0
  evictions : Nat := 0   -- accepted single inserts after which a previously swept key is gone
  hits : Nat := 0
  misses : Nat := 0
  rejected : Nat := 0    -- inserts that returned false
  reaped : Nat := 0      -- entries removed by clean_expired_values
  expired : Nat := 0     -- events at which a previously swept key is gone without an insert/erase/clear (expiry)
  rangeOps : Nat := 0
  deriving Repr

def statLoop : List Event → List Key → List Key → Stat → Stat
  | [], _, _, st => st
  | e :: es, prevA, prevB, st =>
    let prev := if e.inst = 0 then prevA else prevB
    let cur := e.obs.sweep.map (·.1)
    let lost := prev.filter (fun k => !cur.contains k)
    let st := { st with events := st.events + 1 }
    let st := match e.op, e.out with
      | .insert .., .bool true => if lost.isEmpty then st else { st with evictions := st.evictions + 1 }
      | .insert .., .bool false => { st with rejected := st.rejected + 1 }
      | .insertRange .., _ => { st with rangeOps := st.rangeOps + 1, evictions := st.evictions + lost.length }
      | .find .., .opt (some _) => { st with hits := st.hits + 1 }
      | .find .., .opt none => { st with misses := st.misses + 1 }
      | .findCount .., .optc (some _) => { st with hits := st.hits + 1 }
      | .findCount .., .optc none => { st with misses := st.misses + 1 }
      | .findRange .., _ => { st with rangeOps := st.rangeOps + 1 }
      | .eraseRange .., _ => { st with rangeOps := st.rangeOps + 1 }
      | .clean, .nat n => { st with reaped := st.reaped + n }
      | .erase .., _ => st
      | .clear, _ => st
      | _, _ => if lost.isEmpty then st else { st with expired := st.expired + 1 }
    if e.inst = 0 then statLoop es cur prevB st else statLoop es prevA cur st

def stat (evs : List Event) : Stat := statLoop evs [] [] {}

def Stat.show (s : Stat) : String :=
  s!"events={s.events} evictions={s.evictions} hits={s.hits} misses={s.misses} rejected={s.rejected} reaped={s.reaped} expired={s.expired} ranges={s.rangeOps}"

end Verif.Check
