import Verif.Model.All
import Verif.Proto
/-!
# Correspondence check: replay the implementation's events on the model, report the first difference
-/
namespace Verif.Check
open Verif Verif.Proto

structure Diff where
  ev : Nat
  field : String
  model : String
  impl : String
  deriving Repr

def Diff.show (d : Diff) : String :=
  s!"ev={d.ev} field={d.field} model=[{d.model}] impl=[{d.impl}]"

/-- model states of the (at most two) instances of a script -/
structure Insts where
  a : MState
  b : MState

def Insts.get (i : Insts) (n : Nat) : MState := if n = 0 then i.a else i.b
def Insts.set (i : Insts) (n : Nat) (m : MState) : Insts := if n = 0 then { i with a := m } else { i with b := m }

/-- compare one event with the model's step; `none` = agree -/
def cmpEvent (nkeys : Nat) (m : MState) (idx : Nat) (e : Event) : MState × Option Diff :=
  let r := m.step e.now e.op
  let m' := r.1
  let sw := m'.sweep e.now nkeys
  let d : Option Diff :=
    if r.2 ≠ e.out then some ⟨idx, "out", showOut r.2, showOut e.out⟩
    else if m'.size ≠ e.obs.size then some ⟨idx, "size", toString m'.size, toString e.obs.size⟩
    else if (m'.size == 0) ≠ e.obs.empty then some ⟨idx, "empty", toString (m'.size == 0), toString e.obs.empty⟩
    else if m'.capacity ≠ e.obs.cap then some ⟨idx, "capacity", toString m'.capacity, toString e.obs.cap⟩
    else if sw ≠ e.obs.sweep then some ⟨idx, "sweep", showSweep sw, showSweep e.obs.sweep⟩
    else none
  (m', d)

def l1Loop (nkeys : Nat) : Insts → Nat → List Event → Option Diff
  | _, _, [] => none
  | st, idx, e :: es =>
    let r := cmpEvent nkeys (st.get e.inst) idx e
    match r.2 with
    | some d => some d
    | none => l1Loop nkeys (st.set e.inst r.1) (idx + 1) es

/-- the observable tier: every output, observer and sweep entry of every event equals the model's -/
def l1 (cfg : Cfg) (nkeys : Nat) (evs : List Event) : Option Diff :=
  l1Loop nkeys ⟨MState.init cfg, MState.init cfg⟩ 0 evs

end Verif.Check
