import Verif.PropertiesAnyClock
import Verif.Proofs.Eager
import Verif.Conc.Linearizable
/-!
# C06 composed with the sequential theorems: the property theorems for concurrent histories

`Conc/Linearizable.lean` proves, for *any* sequential specification `step`, that every history of
the lock-protected implementation machine (any number of threads, any schedule) has a linearization.
`Properties*.lean` prove what the sequential models do.  This file puts the two together:

* `Verified.objStep` makes a container an atomic object whose operations are the public calls *together
  with the clock reading the call sampled* (`Time × Op`).
* `Core.legal_iff_run` / `Verified.linearization_is_history`: a legal linearization of that object *is*
  a sequential history `ops : List (Time × Op)` whose outputs under `Core.run` are exactly the outputs
  the concurrent calls returned.
* `Verified.conc_sequential_rules` (containers whose invariant ignores the clock: all but
  ut_map/ut_set) and `Verified.conc_clocked_sequential_rules` (clock read under the lock: ut_map /
  ut_set): every concurrent history has a linearization whose atom trace satisfies C01, C02, C03,
  C05, C09 and C17 exactly as stated sequentially; `conc_C01` … `conc_C17` are the same, one at a time.
* the replacement-policy theorems (C10–C13, C15, C16) lifted the same way.

Nothing here is specific to one linearization: `Verified.linearization_sequential_rules` says that
*every* linearization of a history of the object obeys the sequential rules, and
`Conc.locked_object_linearizable` says that at least one exists.
-/
namespace Verif
open Verif.Spec

/-- a concurrent history of a container: invocations carry the call and the clock reading it uses -/
abbrev CHistory := List (Conc.Ev (Time × Op) Out)

/-- a linearization of such a history -/
abbrev CLin := List (Conc.LinOp (Time × Op) Out)

/-- the sequential history (clock readings paired with calls) a linearization lists -/
def CLin.ops (lin : CLin) : List (Time × Op) := lin.map (·.op)

/-- the outputs the linearized calls returned -/
def CLin.outs (lin : CLin) : List Out := lin.map (·.out)

/-! ## 1–2. the container as an atomic object, and the bridge `Legal` ⇄ `Core.run` -/

namespace Core
variable {σ : Type} (c : Core σ)

/-- one public call, with the clock reading it sampled, as one operation of an atomic object -/
def objStep : σ → (Time × Op) → σ × Out := fun s x => c.step s x.1 x.2

/-- **Bridge.** A list of (operation, output) pairs is a legal sequential history of the atomic object
iff `Core.run` over the operations returns exactly those outputs. -/
theorem legal_iff_run (s : σ) (l : List ((Time × Op) × Out)) :
    Conc.Legal c.objStep s l ↔ (c.run s (l.map (·.1))).2 = l.map (·.2) := by
  induction l generalizing s with
  | nil => simp [Conc.Legal, run]
  | cons x r ih =>
    obtain ⟨⟨t, op⟩, out⟩ := x
    simp only [Conc.Legal, List.map_cons, run, List.cons.injEq, objStep]
    rw [ih]

/-- the object value after a linearization is the state `Core.run` ends in -/
theorem finalState_eq_run (s : σ) (l : List ((Time × Op) × Out)) :
    Conc.finalState c.objStep s l = (c.run s (l.map (·.1))).1 := by
  induction l generalizing s with
  | nil => rfl
  | cons x r ih =>
    obtain ⟨⟨t, op⟩, out⟩ := x
    simp only [Conc.finalState, List.map_cons, run, objStep]
    rw [← ih]

end Core

namespace Verified
variable {σ : Type} (V : Verified σ)

/-- The container as an atomic object: an operation is a public call together with the clock reading
the call sampled (before or after taking the lock — for the containers below it does not matter). -/
def objStep (V : Verified σ) : σ → (Time × Op) → σ × Out := fun s x => V.c.step s x.1 x.2

theorem objStep_eq : V.objStep = V.c.objStep := rfl

/-- **Bridge.** The entries of a linearization `lin` of a history of the container object are a
sequential history `lin.ops` whose outputs under `Core.run` from the fresh container (equally: under
`runA`, over which the property theorems are stated) are exactly the outputs `lin.outs` that the
concurrent calls returned, and whose final state is the object value `finalState`. -/
theorem linearization_is_history {h : CHistory} {lin : CLin}
    (hl : Conc.IsLinearization V.objStep V.s0 h lin) :
    (V.c.run V.s0 lin.ops).2 = lin.outs ∧ (V.c.runA V.s0 lin.ops).2.1 = lin.outs ∧
      (V.c.run V.s0 lin.ops).1 = Conc.finalState V.objStep V.s0 (lin.map fun x => (x.op, x.out)) := by
  have h1 := (V.c.legal_iff_run V.s0 _).mp hl.legal
  have h2 := V.c.finalState_eq_run V.s0 (lin.map fun x => (x.op, x.out))
  simp only [List.map_map] at h1 h2
  refine ⟨h1, ?_, h2.symm⟩
  rw [V.outputs_eq]; exact h1

/-- conversely: a sequential history together with the outputs `Core.run` gives for it is a legal
history of the object (so `Legal` says no more and no less than "these are `run`'s outputs") -/
theorem legal_of_run (ops : List (Time × Op)) :
    Conc.Legal V.objStep V.s0 (ops.zip (V.c.run V.s0 ops).2) := by
  have hlen : ∀ (s : σ) (ops : List (Time × Op)), (V.c.run s ops).2.length = ops.length := by
    intro s ops
    induction ops generalizing s with
    | nil => rfl
    | cons x r ih => obtain ⟨t, op⟩ := x; simp [Core.run, ih]
  rw [objStep_eq, Core.legal_iff_run]
  rw [← List.unzip_fst, ← List.unzip_snd, List.unzip_zip (hlen _ _).symm]

/-! ## 3. the sequential rules, as one bundle -/

/-- The policy-independent sequential rules (the conclusions of `C01`, `C02_bound`, `C03`, `C05`,
`C09`, `C17`, verbatim) for one sequential history `ops` of the container. -/
structure SeqRules (ops : List (Time × Op)) : Prop where
  /-- C01 (and C04 for tlru/utlru): a lookup hit reports the latest surviving write, before its deadline -/
  C01 : ∀ (p q : List (Time × Atom)) (now : Time) (k : Key) (pk : Bool) (v : Val) (n : Nat),
    V.history ops = p ++ (now, .look k pk (some (v, n))) :: q →
    ∃ d, lastWrite p k = some (v, d) ∧ (V.fl = .lazy → now < d)
  /-- C02: at most `cap` resident entries (bounded containers) -/
  C02_bound : V.fl ≠ .eager → (V.abs (V.c.runA V.s0 ops).1).size ≤ V.cap
  /-- C03: retention at every step but `clear()` -/
  C03 : ∀ (p q : List (Time × Atom)) (now : Time) (x : Atom),
    V.history ops = p ++ (now, x) :: q → x ≠ .clear →
    ∃ a a' ks, ARun V.fl V.cap A.empty p a ∧ AStep V.fl V.cap a now x a' ∧ allowedLoss a x a' ks ∧
      ∀ k' y, a.get k' = some y → liveAt V.fl now y → k' ∉ ks →
        (∀ k v al d, x = .ins k v al d true → k' ≠ k) → a'.get k' = some y
  /-- C05: an entry that has not reached its deadline is served, and nothing is removed -/
  C05 : ∀ (p q : List (Time × Atom)) (now : Time) (k : Key) (pk : Bool) (r : Option (Val × Nat)),
    V.history ops = p ++ (now, .look k pk r) :: q →
    ∃ a a', ARun V.fl V.cap A.empty p a ∧ Coupled a (lastWrite p) ∧
      ∀ y, a.get k = some y → now < y.2 → r.map (·.1) = some y.1 ∧ a' = a
  /-- C09: allow modes -/
  C09 : ∀ (p q : List (Time × Atom)) (now : Time) (k : Key) (v : Val) (al : Allow) (d : Time) (ok : Bool),
    V.history ops = p ++ (now, .ins k v al d ok) :: q →
    ∃ a a', ARun V.fl V.cap A.empty p a ∧
      (al = .insertOrUpdate → ok = true) ∧
      (al = .insert → (ok = true ↔ (a.get k = none ∨ (V.fl = .lazy ∧ ∃ y, a.get k = some y ∧ y.2 ≤ now)))) ∧
      (al = .update → (ok = true ↔ a.get k ≠ none)) ∧
      (ok = false → a' = a) ∧ (ok = true → a'.get k = some (v, d))
  /-- C17: `clean_expired_values()` removes exactly the expired entries (TTL containers) -/
  C17 : V.fl ≠ .plain → ∀ (p q : List (Time × Atom)) (now : Time) (n : Nat),
    V.history ops = p ++ (now, .reap n) :: q →
    ∃ a a', ARun V.fl V.cap A.empty p a ∧ AStep V.fl V.cap a now (.reap n) a' ∧
      a'.size + n = a.size ∧
      (∀ k y, a.get k = some y → now < y.2 → a'.get k = some y) ∧
      (∀ k y, a'.get k = some y → now < y.2 ∧ a.get k = some y)

/-- the sequential rules hold for every sequential history, whatever its clock readings, of a container
whose invariant does not mention the clock -/
theorem seqRules_anyclock (htl : V.Timeless) (ops : List (Time × Op)) : V.SeqRules ops :=
  { C01 := fun p q now k pk v n hs => V.C01_anyclock ops htl p q now k pk v n hs
    C02_bound := fun hfl => V.C02_bound_anyclock hfl ops htl
    C03 := fun p q now x hs hx => V.C03_anyclock ops htl p q now x hs hx
    C05 := fun p q now k pk r hs => V.C05_anyclock ops htl p q now k pk r hs
    C09 := fun p q now k v al d ok hs => V.C09_anyclock ops htl p q now k v al d ok hs
    C17 := fun hfl p q now n hs => V.C17_anyclock hfl ops htl p q now n hs }

/-- the sequential rules hold for every sequential history with non-decreasing clock readings, of any
container -/
theorem seqRules_mono (ops : List (Time × Op)) (t0 : Time) (ht : TimesFrom t0 ops) : V.SeqRules ops :=
  { C01 := fun p q now k pk v n hs => V.C01 ops t0 ht p q now k pk v n hs
    C02_bound := fun hfl => V.C02_bound hfl ops t0 ht
    C03 := fun p q now x hs hx => V.C03 ops t0 ht p q now x hs hx
    C05 := fun p q now k pk r hs => V.C05 ops t0 ht p q now k pk r hs
    C09 := fun p q now k v al d ok hs => V.C09 ops t0 ht p q now k v al d ok hs
    C17 := fun hfl p q now n hs => V.C17 hfl ops t0 ht p q now n hs }

/-- `lin` is a sequential explanation of the concurrent history `h` of the container: it is a
Herlihy–Wing linearization of `h` (every completed call appears in it with the output it returned,
per-thread and real-time order are respected), and replaying its calls one after the other on a fresh
container (`Core.run`) returns exactly the outputs the concurrent calls returned. -/
structure Explains (h : CHistory) (lin : CLin) : Prop where
  isLin : Conc.IsLinearization V.objStep V.s0 h lin
  outputs : (V.c.run V.s0 lin.ops).2 = lin.outs

/-- **C06 for a container object.** Every history of the lock-protected implementation (any number of
threads, any schedule) has a sequential explanation. -/
theorem conc_explained {h : CHistory} (hh : Conc.ImplHistory V.objStep V.s0 h) :
    ∃ lin, V.Explains h lin := by
  obtain ⟨lin, hl⟩ := Conc.locked_object_linearizable hh
  exact ⟨lin, hl, (V.linearization_is_history hl).1⟩

/-- Every linearization of a history of a clock-independent container obeys the sequential rules:
its outputs are those of the sequential run and its atom trace satisfies C01, C02, C03, C05, C09, C17. -/
theorem linearization_sequential_rules (htl : V.Timeless) {h : CHistory} {lin : CLin}
    (hl : Conc.IsLinearization V.objStep V.s0 h lin) : V.Explains h lin ∧ V.SeqRules lin.ops :=
  ⟨⟨hl, (V.linearization_is_history hl).1⟩, V.seqRules_anyclock htl lin.ops⟩

/-- **C06 ∘ (C01, C02, C03, C05, C09, C17).** With `thread_safe::yes`, whatever the threads do, the
results the calls of lru/mru/fifo/lfu/lfuda/rr/tlru/utlru return are those of one sequential ordering
of the same calls (consistent with program and real-time order), and that ordering obeys every
policy-independent sequential rule — even though its clock readings need not be monotone. -/
theorem conc_sequential_rules (htl : V.Timeless) (h : CHistory)
    (hh : Conc.ImplHistory V.objStep V.s0 h) :
    ∃ lin, V.Explains h lin ∧ V.SeqRules lin.ops := by
  obtain ⟨lin, hl⟩ := V.conc_explained hh
  exact ⟨lin, hl, V.seqRules_anyclock htl lin.ops⟩

/-! ### the same, one property at a time (statements as in `PropertiesAnyClock.lean`) -/

/-- **C01 (and C04 for tlru/utlru), concurrent.** In the sequential explanation of any concurrent
history, a lookup that reports `v` for `k` reports the value of the latest successful write of `k` not
since undone by an erase of `k` or a clear — in the lazy-TTL caches strictly before its deadline. -/
theorem conc_C01 (htl : V.Timeless) (h : CHistory) (hh : Conc.ImplHistory V.objStep V.s0 h) :
    ∃ lin, V.Explains h lin ∧
      ∀ (p q : List (Time × Atom)) (now : Time) (k : Key) (pk : Bool) (v : Val) (n : Nat),
        V.history lin.ops = p ++ (now, .look k pk (some (v, n))) :: q →
        ∃ d, lastWrite p k = some (v, d) ∧ (V.fl = .lazy → now < d) :=
  (V.conc_sequential_rules htl h hh).imp fun _ r => ⟨r.1, r.2.C01⟩

/-- **C02 (capacity bound), concurrent.** After the sequential explanation of any concurrent history the
number of resident entries is at most the capacity (bounded containers); the state meant is the object
value `finalState` the threads leave behind. -/
theorem conc_C02_bound (hfl : V.fl ≠ .eager) (htl : V.Timeless) (h : CHistory)
    (hh : Conc.ImplHistory V.objStep V.s0 h) :
    ∃ lin, V.Explains h lin ∧ (V.abs (V.c.runA V.s0 lin.ops).1).size ≤ V.cap :=
  (V.conc_sequential_rules htl h hh).imp fun _ r => ⟨r.1, r.2.C02_bound hfl⟩

/-- **C03 (retention), concurrent.** At every step except `clear()` of the sequential explanation of any
concurrent history, a live resident entry survives unless it is the erased key, the written key or the
single victim of an accepted insert into a full container. -/
theorem conc_C03 (htl : V.Timeless) (h : CHistory) (hh : Conc.ImplHistory V.objStep V.s0 h) :
    ∃ lin, V.Explains h lin ∧
      ∀ (p q : List (Time × Atom)) (now : Time) (x : Atom),
        V.history lin.ops = p ++ (now, x) :: q → x ≠ .clear →
        ∃ a a' ks, ARun V.fl V.cap A.empty p a ∧ AStep V.fl V.cap a now x a' ∧ allowedLoss a x a' ks ∧
          ∀ k' y, a.get k' = some y → liveAt V.fl now y → k' ∉ ks →
            (∀ k v al d, x = .ins k v al d true → k' ≠ k) → a'.get k' = some y :=
  (V.conc_sequential_rules htl h hh).imp fun _ r => ⟨r.1, r.2.C03⟩

/-- **C05 (TTL retention), concurrent.** At every lookup of the sequential explanation of any concurrent
history, an entry that has not reached its deadline is reported and nothing is removed. -/
theorem conc_C05 (htl : V.Timeless) (h : CHistory) (hh : Conc.ImplHistory V.objStep V.s0 h) :
    ∃ lin, V.Explains h lin ∧
      ∀ (p q : List (Time × Atom)) (now : Time) (k : Key) (pk : Bool) (r : Option (Val × Nat)),
        V.history lin.ops = p ++ (now, .look k pk r) :: q →
        ∃ a a', ARun V.fl V.cap A.empty p a ∧ Coupled a (lastWrite p) ∧
          ∀ y, a.get k = some y → now < y.2 → r.map (·.1) = some y.1 ∧ a' = a :=
  (V.conc_sequential_rules htl h hh).imp fun _ r => ⟨r.1, r.2.C05⟩

/-- **C09 (allow modes), concurrent.** At every single insert/update of the sequential explanation of
any concurrent history: verdict by allow mode and residency, no effect on rejection, value and deadline
written on success. -/
theorem conc_C09 (htl : V.Timeless) (h : CHistory) (hh : Conc.ImplHistory V.objStep V.s0 h) :
    ∃ lin, V.Explains h lin ∧
      ∀ (p q : List (Time × Atom)) (now : Time) (k : Key) (v : Val) (al : Allow) (d : Time) (ok : Bool),
        V.history lin.ops = p ++ (now, .ins k v al d ok) :: q →
        ∃ a a', ARun V.fl V.cap A.empty p a ∧
          (al = .insertOrUpdate → ok = true) ∧
          (al = .insert → (ok = true ↔ (a.get k = none ∨ (V.fl = .lazy ∧ ∃ y, a.get k = some y ∧ y.2 ≤ now)))) ∧
          (al = .update → (ok = true ↔ a.get k ≠ none)) ∧
          (ok = false → a' = a) ∧ (ok = true → a'.get k = some (v, d)) :=
  (V.conc_sequential_rules htl h hh).imp fun _ r => ⟨r.1, r.2.C09⟩

/-- **C17 (clean_expired_values), concurrent.** At every `clean_expired_values()` of the sequential
explanation of any concurrent history of a TTL container: exactly the expired entries go and the
returned count is the drop in `size()`. -/
theorem conc_C17 (hfl : V.fl ≠ .plain) (htl : V.Timeless) (h : CHistory)
    (hh : Conc.ImplHistory V.objStep V.s0 h) :
    ∃ lin, V.Explains h lin ∧
      ∀ (p q : List (Time × Atom)) (now : Time) (n : Nat),
        V.history lin.ops = p ++ (now, .reap n) :: q →
        ∃ a a', ARun V.fl V.cap A.empty p a ∧ AStep V.fl V.cap a now (.reap n) a' ∧
          a'.size + n = a.size ∧
          (∀ k y, a.get k = some y → now < y.2 → a'.get k = some y) ∧
          (∀ k y, a'.get k = some y → now < y.2 ∧ a.get k = some y) :=
  (V.conc_sequential_rules htl h hh).imp fun _ r => ⟨r.1, r.2.C17 hfl⟩

end Verified

/-! ### the eight clock-independent containers -/

/-- lru_cache, `thread_safe::yes`: every concurrent history has a sequential explanation obeying the rules -/
theorem lruV_conc (cap : Nat) (hcap : 0 < cap) (h : CHistory)
    (hh : Conc.ImplHistory (lruV cap hcap).objStep (lruV cap hcap).s0 h) :
    ∃ lin, (lruV cap hcap).Explains h lin ∧ (lruV cap hcap).SeqRules lin.ops :=
  (lruV cap hcap).conc_sequential_rules (lruV_timeless cap hcap) h hh

/-- mru_cache -/
theorem mruV_conc (cap : Nat) (hcap : 0 < cap) (h : CHistory)
    (hh : Conc.ImplHistory (mruV cap hcap).objStep (mruV cap hcap).s0 h) :
    ∃ lin, (mruV cap hcap).Explains h lin ∧ (mruV cap hcap).SeqRules lin.ops :=
  (mruV cap hcap).conc_sequential_rules (mruV_timeless cap hcap) h hh

/-- fifo_cache -/
theorem fifoV_conc (cap : Nat) (hcap : 0 < cap) (h : CHistory)
    (hh : Conc.ImplHistory (fifoV cap hcap).objStep (fifoV cap hcap).s0 h) :
    ∃ lin, (fifoV cap hcap).Explains h lin ∧ (fifoV cap hcap).SeqRules lin.ops :=
  (fifoV cap hcap).conc_sequential_rules (fifoV_timeless cap hcap) h hh

/-- rr_cache (for every outcome sequence `rnd` of the random source) -/
theorem rrV_conc (cap : Nat) (hcap : 0 < cap) (rnd : List Nat) (hr : ∀ r ∈ rnd, r < cap) (h : CHistory)
    (hh : Conc.ImplHistory (rrV cap hcap rnd hr).objStep (rrV cap hcap rnd hr).s0 h) :
    ∃ lin, (rrV cap hcap rnd hr).Explains h lin ∧ (rrV cap hcap rnd hr).SeqRules lin.ops :=
  (rrV cap hcap rnd hr).conc_sequential_rules (rrV_timeless cap hcap rnd hr) h hh

/-- lfu_cache -/
theorem lfuV_conc (cap : Nat) (hcap : 0 < cap) (h : CHistory)
    (hh : Conc.ImplHistory (lfuV cap hcap).objStep (lfuV cap hcap).s0 h) :
    ∃ lin, (lfuV cap hcap).Explains h lin ∧ (lfuV cap hcap).SeqRules lin.ops :=
  (lfuV cap hcap).conc_sequential_rules (lfuV_timeless cap hcap) h hh

/-- lfuda_cache (clock sampled before the lock is taken) -/
theorem lfudaV_conc (cap : Nat) (hcap : 0 < cap) (tickMs num den : Nat) (h : CHistory)
    (hh : Conc.ImplHistory (lfudaV cap hcap tickMs num den).objStep (lfudaV cap hcap tickMs num den).s0 h) :
    ∃ lin, (lfudaV cap hcap tickMs num den).Explains h lin ∧ (lfudaV cap hcap tickMs num den).SeqRules lin.ops :=
  (lfudaV cap hcap tickMs num den).conc_sequential_rules (lfudaV_timeless cap hcap tickMs num den) h hh

/-- tlru_cache (clock sampled before the lock is taken) -/
theorem tlruV_conc (cap : Nat) (hcap : 0 < cap) (h : CHistory)
    (hh : Conc.ImplHistory (tlruV cap hcap).objStep (tlruV cap hcap).s0 h) :
    ∃ lin, (tlruV cap hcap).Explains h lin ∧ (tlruV cap hcap).SeqRules lin.ops :=
  (tlruV cap hcap).conc_sequential_rules (tlruV_timeless cap hcap) h hh

/-- utlru_cache (clock sampled before the lock is taken) -/
theorem utlruV_conc (cap : Nat) (hcap : 0 < cap) (ttlMs : Nat) (h : CHistory)
    (hh : Conc.ImplHistory (utlruV cap hcap ttlMs).objStep (utlruV cap hcap ttlMs).s0 h) :
    ∃ lin, (utlruV cap hcap ttlMs).Explains h lin ∧ (utlruV cap hcap ttlMs).SeqRules lin.ops :=
  (utlruV cap hcap ttlMs).conc_sequential_rules (utlruV_timeless cap hcap ttlMs) h hh

/-! ### the replacement-policy theorems (C10–C13, C15, C16) for concurrent histories

Each: every concurrent history of the container has a sequential explanation `lin` that obeys the
policy-independent rules *and* whose atom trace, annotated with the model states (`tr`), satisfies the
policy fact at every accepted insert of a new key that finds the container full — statements as in
`PropertiesAnyClock.lean`, with `lin.ops` for the sequential history. -/

/-- **C10 (lru_cache), concurrent.** The victim is the least recently used resident key, where "used"
refers to the order in which the concurrent calls took effect. -/
theorem conc_C10_lru (cap : Nat) (hcap : 0 < cap) (h : CHistory)
    (hh : Conc.ImplHistory (lruV cap hcap).objStep (lruV cap hcap).s0 h) :
    ∃ lin, (lruV cap hcap).Explains h lin ∧ (lruV cap hcap).SeqRules lin.ops ∧
      ∃ tr : STrace RecState, tr.atoms = (lruV cap hcap).history lin.ops ∧
        ∀ p q s now k v al d, tr = p ++ (s, now, .ins k v al d true) :: q → k ∉ keys s.ents → cap ≤ s.ents.length →
          ∃ s' w, CStep Lru.core s now (.ins k v al d true) s' ∧
            firstIn (useOrder p) (keys s.ents) = some w ∧ Evicts (keys s.ents) (keys s'.ents) k w :=
  (lruV_conc cap hcap h hh).imp fun lin r => ⟨r.1, r.2, C10_lru_history_anyclock cap hcap lin.ops⟩

/-- **C13 (mru_cache), concurrent.** The victim is the most recently used resident key. -/
theorem conc_C13_mru (cap : Nat) (hcap : 0 < cap) (h : CHistory)
    (hh : Conc.ImplHistory (mruV cap hcap).objStep (mruV cap hcap).s0 h) :
    ∃ lin, (mruV cap hcap).Explains h lin ∧ (mruV cap hcap).SeqRules lin.ops ∧
      ∃ tr : STrace RecState, tr.atoms = (mruV cap hcap).history lin.ops ∧
        ∀ p q s now k v al d, tr = p ++ (s, now, .ins k v al d true) :: q → k ∉ keys s.ents → cap ≤ s.ents.length →
          ∃ s' w, CStep Mru.core s now (.ins k v al d true) s' ∧
            lastIn (useOrder p) (keys s.ents) = some w ∧ Evicts (keys s.ents) (keys s'.ents) k w ∧
            lastIn (useOrder (p ++ [(s, now, .ins k v al d true)])) (keys s'.ents) = some k :=
  (mruV_conc cap hcap h hh).imp fun lin r => ⟨r.1, r.2, C13_mru_history_anyclock cap hcap lin.ops⟩

/-- **C12 (fifo_cache), concurrent.** The victim is the resident key that was inserted first. -/
theorem conc_C12_fifo (cap : Nat) (hcap : 0 < cap) (h : CHistory)
    (hh : Conc.ImplHistory (fifoV cap hcap).objStep (fifoV cap hcap).s0 h) :
    ∃ lin, (fifoV cap hcap).Explains h lin ∧ (fifoV cap hcap).SeqRules lin.ops ∧
      ∃ tr : STrace FifoState, tr.atoms = (fifoV cap hcap).history lin.ops ∧
        ∀ p q s now k v al d, tr = p ++ (s, now, .ins k v al d true) :: q → k ∉ keys s.ents → cap ≤ s.ents.length →
          ∃ s' w, CStep Fifo.core s now (.ins k v al d true) s' ∧
            firstIn (bornOrder (fun s => keys s.ents) p) (keys s.ents) = some w ∧
            Evicts (keys s.ents) (keys s'.ents) k w :=
  (fifoV_conc cap hcap h hh).imp fun lin r => ⟨r.1, r.2, C12_fifo_history_anyclock cap hcap lin.ops⟩

/-- **C11 (lfu_cache), concurrent.** Reported use counts are the ghost counts; the victim's count is minimal. -/
theorem conc_C11_lfu (cap : Nat) (hcap : 0 < cap) (h : CHistory)
    (hh : Conc.ImplHistory (lfuV cap hcap).objStep (lfuV cap hcap).s0 h) :
    ∃ lin, (lfuV cap hcap).Explains h lin ∧ (lfuV cap hcap).SeqRules lin.ops ∧
      ∃ tr : STrace LfuState, tr.atoms = (lfuV cap hcap).history lin.ops ∧
        (∀ p q s now k pk v n, tr = p ++ (s, now, .look k pk (some (v, n))) :: q →
          n = useCount (fun s => keys s.ents) (p ++ [(s, now, .look k pk (some (v, n)))]) k) ∧
        (∀ p q s now k v al d, tr = p ++ (s, now, .ins k v al d true) :: q → k ∉ keys s.ents → cap ≤ s.ents.length →
          ∃ s' w, CStep Lfu.core s now (.ins k v al d true) s' ∧ Evicts (keys s.ents) (keys s'.ents) k w ∧
            ∀ u ∈ keys s.ents, useCount (fun s => keys s.ents) p w ≤ useCount (fun s => keys s.ents) p u) :=
  (lfuV_conc cap hcap h hh).imp fun lin r => ⟨r.1, r.2, C11_lfu_history_anyclock cap hcap lin.ops⟩

/-- **C15 (rr_cache), concurrent.** The victim is the resident entry in the slot the random source named;
in a full cache slots and residents are in bijection. -/
theorem conc_C15_rr (cap : Nat) (hcap : 0 < cap) (rnd : List Nat) (hr : ∀ r ∈ rnd, r < cap) (h : CHistory)
    (hh : Conc.ImplHistory (rrV cap hcap rnd hr).objStep (rrV cap hcap rnd hr).s0 h) :
    ∃ lin, (rrV cap hcap rnd hr).Explains h lin ∧ (rrV cap hcap rnd hr).SeqRules lin.ops ∧
      ∃ tr : STrace RrState, tr.atoms = (rrV cap hcap rnd hr).history lin.ops ∧
        ∀ p q s now k v al d, tr = p ++ (s, now, .ins k v al d true) :: q → k ∉ keys s.ents → cap ≤ s.ents.length →
          ∃ s' e, CStep Rr.core s now (.ins k v al d true) s' ∧
            Rr.atSlot s.ents (s.rnd.headD 0) = some e ∧ Evicts (keys s.ents) (keys s'.ents) k e.key ∧
            s'.rnd = s.rnd.tail ∧ s.rnd.headD 0 < cap ∧
            (∀ r, r < cap → ∃ e, e ∈ s.ents ∧ e.slot = r ∧ ∀ e' ∈ s.ents, e'.slot = r → e' = e) ∧
            (∀ e ∈ s.ents, e.slot < cap) :=
  (rrV_conc cap hcap rnd hr h hh).imp fun lin r => ⟨r.1, r.2, C15_rr_history_anyclock cap hcap rnd hr lin.ops⟩

/-- **C10 and C16 (tlru_cache), concurrent.** At an evicting insert whose clock reading is `now`:
nothing has expired at `now` ⇒ the least recently used key goes; something has ⇒ an expired entry
goes and every live one stays. -/
theorem conc_C10_C16_tlru (cap : Nat) (hcap : 0 < cap) (h : CHistory)
    (hh : Conc.ImplHistory (tlruV cap hcap).objStep (tlruV cap hcap).s0 h) :
    ∃ lin, (tlruV cap hcap).Explains h lin ∧ (tlruV cap hcap).SeqRules lin.ops ∧
      ∃ tr : STrace TlruState, tr.atoms = (tlruV cap hcap).history lin.ops ∧
        ∀ p q s now k v al d, tr = p ++ (s, now, .ins k v al d true) :: q → k ∉ keys s.ents → cap ≤ s.ents.length →
          ∃ s', CStep Tlru.core s now (.ins k v al d true) s' ∧
            ((∀ e ∈ s.ents, now < e.dl) →
              ∃ w, firstIn (useOrder p) (keys s.ents) = some w ∧ Evicts (keys s.ents) (keys s'.ents) k w) ∧
            ((∃ e ∈ s.ents, e.dl ≤ now) →
              ∃ w e, getE s.ents w = some e ∧ e.dl ≤ now ∧ Evicts (keys s.ents) (keys s'.ents) k w ∧
                ∀ u e', getE s.ents u = some e' → now < e'.dl → getE s'.ents u = some e') :=
  (tlruV_conc cap hcap h hh).imp fun lin r => ⟨r.1, r.2, C10_C16_tlru_history_anyclock cap hcap lin.ops⟩

/-- **C10 and C16 (utlru_cache), concurrent**, after any sequence of `update_ttl` calls. -/
theorem conc_C10_C16_utlru (cap : Nat) (hcap : 0 < cap) (ttlMs : Nat) (h : CHistory)
    (hh : Conc.ImplHistory (utlruV cap hcap ttlMs).objStep (utlruV cap hcap ttlMs).s0 h) :
    ∃ lin, (utlruV cap hcap ttlMs).Explains h lin ∧ (utlruV cap hcap ttlMs).SeqRules lin.ops ∧
      ∃ tr : STrace TlruState, tr.atoms = (utlruV cap hcap ttlMs).history lin.ops ∧
        ∀ p q s now k v al d, tr = p ++ (s, now, .ins k v al d true) :: q → k ∉ keys s.ents → cap ≤ s.ents.length →
          ∃ s', CStep Utlru.core s now (.ins k v al d true) s' ∧
            ((∀ e ∈ s.ents, now < e.dl) →
              ∃ w, firstIn (useOrder p) (keys s.ents) = some w ∧ Evicts (keys s.ents) (keys s'.ents) k w) ∧
            ((∃ e ∈ s.ents, e.dl ≤ now) →
              ∃ w e, getE s.ents w = some e ∧ e.dl ≤ now ∧ Evicts (keys s.ents) (keys s'.ents) k w ∧
                ∀ u e', getE s.ents u = some e' → now < e'.dl → getE s'.ents u = some e') :=
  (utlruV_conc cap hcap ttlMs h hh).imp fun lin r =>
    ⟨r.1, r.2, C10_C16_utlru_history_anyclock cap hcap ttlMs lin.ops⟩

/-! ## 4. ut_map / ut_set: the clock is read under the lock

ut_map's invariant (its TTL list is sorted by deadline) needs non-decreasing clock readings in the
order the calls take effect, so the theorems of `Properties.lean` (hypothesis `TimesFrom`) are the ones
to lift.  The C++ reads `steady_clock::now()` *after* taking the lock there (`Conc/ClockHeld.lean`,
`Conc/ClockTable.lean`), so the readings are ordered like the critical sections.  The object below says
just that: its state carries the previous reading, and an operation carries the amount `d ≥ 0` by
which the steady clock had advanced when the call read it inside its critical section.  (`d` is fixed
in the invocation event, i.e. it is a prophecy of what the clock will show; the theorems hold for
every history of the machine, hence whatever values the clock actually produced.) -/

/-- a concurrent history of a container that reads the clock under its lock -/
abbrev KHistory := List (Conc.Ev (Nat × Op) Out)

/-- a linearization of such a history -/
abbrev KLin := List (Conc.LinOp (Nat × Op) Out)

/-- the clock readings of successive critical sections: start at `t`, advance by each `d` in turn -/
def stamps (t : Time) : List (Nat × Op) → List (Time × Op)
  | [] => []
  | (d, op) :: r => (t + d, op) :: stamps (t + d) r

/-- the last clock reading -/
def lastStamp (t : Time) : List (Nat × Op) → Time
  | [] => t
  | (d, _) :: r => lastStamp (t + d) r

/-- the sequential history a linearization lists, the clock having shown `t0` at construction -/
def KLin.ops (t0 : Time) (lin : KLin) : List (Time × Op) := stamps t0 (lin.map (·.op))

/-- the outputs the linearized calls returned -/
def KLin.outs (lin : KLin) : List Out := lin.map (·.out)

/-- readings taken under the lock never decrease, in the order of the critical sections -/
theorem timesFrom_stamps (t : Time) (l : List (Nat × Op)) : TimesFrom t (stamps t l) := by
  induction l generalizing t with
  | nil => trivial
  | cons x r ih => obtain ⟨d, op⟩ := x; exact ⟨Nat.le_add_right t d, ih (t + d)⟩

namespace Core
variable {σ : Type} (c : Core σ)

/-- one public call that reads the clock inside its critical section: the state is the container and
the previous reading `st.2`; the call reads `st.2 + d` -/
def objStepClocked : σ × Time → Nat × Op → (σ × Time) × Out :=
  fun st x => (((c.step st.1 (st.2 + x.1) x.2).1, st.2 + x.1), (c.step st.1 (st.2 + x.1) x.2).2)

/-- **Bridge (clock under the lock).** Legal sequential histories of the clocked object are exactly the
runs of `Core.run` over the stamped operations. -/
theorem legal_clocked_iff_run (s : σ) (t : Time) (l : List ((Nat × Op) × Out)) :
    Conc.Legal c.objStepClocked (s, t) l ↔ (c.run s (stamps t (l.map (·.1)))).2 = l.map (·.2) := by
  induction l generalizing s t with
  | nil => simp [Conc.Legal, run, stamps]
  | cons x r ih =>
    obtain ⟨⟨d, op⟩, out⟩ := x
    simp only [Conc.Legal, List.map_cons, stamps, run, List.cons.injEq, objStepClocked]
    rw [ih]

/-- the object value after a linearization: the state `Core.run` ends in, and the last reading -/
theorem finalState_clocked_eq_run (s : σ) (t : Time) (l : List ((Nat × Op) × Out)) :
    Conc.finalState c.objStepClocked (s, t) l =
      ((c.run s (stamps t (l.map (·.1)))).1, lastStamp t (l.map (·.1))) := by
  induction l generalizing s t with
  | nil => rfl
  | cons x r ih =>
    obtain ⟨⟨d, op⟩, out⟩ := x
    simp only [Conc.finalState, List.map_cons, stamps, run, lastStamp, objStepClocked]
    rw [ih]

end Core

namespace Verified
variable {σ : Type} (V : Verified σ)

/-- The container as an atomic object that reads the clock inside its critical section: state = the
model state and the previous clock reading, operation `(d, op)` = the call `op`, the steady clock having
advanced by `d ≥ 0` since the previous critical section. -/
def objStepClocked (V : Verified σ) : σ × Time → Nat × Op → (σ × Time) × Out :=
  fun st x => (((V.c.step st.1 (st.2 + x.1) x.2).1, st.2 + x.1), (V.c.step st.1 (st.2 + x.1) x.2).2)

theorem objStepClocked_eq : V.objStepClocked = V.c.objStepClocked := rfl

/-- the definition written with pattern matching, as in the C++ reading order: read the clock, run the call -/
theorem objStepClocked_apply (s : σ) (t : Time) (d : Nat) (op : Op) :
    V.objStepClocked (s, t) (d, op) =
      (let t' := t + d; let r := V.c.step s t' op; ((r.1, t'), r.2)) := rfl

/-- `lin` is a sequential explanation of the concurrent history `h` of a container that reads the clock
under its lock and was constructed when the clock showed `t0`: a Herlihy–Wing linearization of `h` whose
clock readings never decrease and whose calls, replayed one after the other on a fresh container, return
exactly the outputs the concurrent calls returned. -/
structure ExplainsClocked (t0 : Time) (h : KHistory) (lin : KLin) : Prop where
  isLin : Conc.IsLinearization V.objStepClocked (V.s0, t0) h lin
  times : TimesFrom t0 (lin.ops t0)
  outputs : (V.c.run V.s0 (lin.ops t0)).2 = lin.outs

/-- **Bridge (clock under the lock).** A linearization of a history of the clocked object is a
sequential history with non-decreasing clock readings (`TimesFrom`), whose outputs under `Core.run` /
`runA` are the recorded ones and whose final state is `finalState`. -/
theorem linearization_is_history_clocked {t0 : Time} {h : KHistory} {lin : KLin}
    (hl : Conc.IsLinearization V.objStepClocked (V.s0, t0) h lin) :
    TimesFrom t0 (lin.ops t0) ∧ (V.c.run V.s0 (lin.ops t0)).2 = lin.outs ∧
      (V.c.runA V.s0 (lin.ops t0)).2.1 = lin.outs ∧
      Conc.finalState V.objStepClocked (V.s0, t0) (lin.map fun x => (x.op, x.out)) =
        ((V.c.run V.s0 (lin.ops t0)).1, lastStamp t0 (lin.map (·.op))) := by
  have h1 := (V.c.legal_clocked_iff_run V.s0 t0 _).mp hl.legal
  have h2 := V.c.finalState_clocked_eq_run V.s0 t0 (lin.map fun x => (x.op, x.out))
  simp only [List.map_map] at h1 h2
  refine ⟨timesFrom_stamps _ _, h1, ?_, h2⟩
  rw [V.outputs_eq]; exact h1

/-- **C06 for a container that reads the clock under its lock.** Every history of the lock-protected
implementation (any number of threads, any schedule, any clock behaviour) has a sequential explanation
with non-decreasing clock readings. -/
theorem conc_explained_clocked {t0 : Time} {h : KHistory}
    (hh : Conc.ImplHistory V.objStepClocked (V.s0, t0) h) : ∃ lin, V.ExplainsClocked t0 h lin := by
  obtain ⟨lin, hl⟩ := Conc.locked_object_linearizable hh
  have := V.linearization_is_history_clocked hl
  exact ⟨lin, hl, this.1, this.2.1⟩

/-- Every linearization of a history of the clocked object obeys the sequential rules (any container). -/
theorem linearization_clocked_sequential_rules {t0 : Time} {h : KHistory} {lin : KLin}
    (hl : Conc.IsLinearization V.objStepClocked (V.s0, t0) h lin) :
    V.ExplainsClocked t0 h lin ∧ V.SeqRules (lin.ops t0) := by
  have := V.linearization_is_history_clocked hl
  exact ⟨⟨hl, this.1, this.2.1⟩, V.seqRules_mono _ t0 this.1⟩

/-- **C06 ∘ (C01, C02, C03, C05, C09, C17), clock read under the lock.** For *any* container model: if
every call reads the clock inside its critical section, every concurrent history has a sequential
explanation with non-decreasing clock readings, and that explanation obeys every policy-independent
sequential rule of `Properties.lean`. -/
theorem conc_clocked_sequential_rules (t0 : Time) (h : KHistory)
    (hh : Conc.ImplHistory V.objStepClocked (V.s0, t0) h) :
    ∃ lin, V.ExplainsClocked t0 h lin ∧ V.SeqRules (lin.ops t0) := by
  obtain ⟨lin, hl⟩ := V.conc_explained_clocked hh
  exact ⟨lin, hl, V.seqRules_mono _ t0 hl.times⟩

/-! ### one property at a time (statements as in `Properties.lean`) -/

/-- **C01, concurrent, clock under the lock.** -/
theorem conc_clocked_C01 (t0 : Time) (h : KHistory) (hh : Conc.ImplHistory V.objStepClocked (V.s0, t0) h) :
    ∃ lin, V.ExplainsClocked t0 h lin ∧
      ∀ (p q : List (Time × Atom)) (now : Time) (k : Key) (pk : Bool) (v : Val) (n : Nat),
        V.history (lin.ops t0) = p ++ (now, .look k pk (some (v, n))) :: q →
        ∃ d, lastWrite p k = some (v, d) ∧ (V.fl = .lazy → now < d) :=
  (V.conc_clocked_sequential_rules t0 h hh).imp fun _ r => ⟨r.1, r.2.C01⟩

/-- **C02 (capacity bound), concurrent, clock under the lock.** -/
theorem conc_clocked_C02_bound (hfl : V.fl ≠ .eager) (t0 : Time) (h : KHistory)
    (hh : Conc.ImplHistory V.objStepClocked (V.s0, t0) h) :
    ∃ lin, V.ExplainsClocked t0 h lin ∧ (V.abs (V.c.runA V.s0 (lin.ops t0)).1).size ≤ V.cap :=
  (V.conc_clocked_sequential_rules t0 h hh).imp fun _ r => ⟨r.1, r.2.C02_bound hfl⟩

/-- **C03 (retention), concurrent, clock under the lock.** -/
theorem conc_clocked_C03 (t0 : Time) (h : KHistory) (hh : Conc.ImplHistory V.objStepClocked (V.s0, t0) h) :
    ∃ lin, V.ExplainsClocked t0 h lin ∧
      ∀ (p q : List (Time × Atom)) (now : Time) (x : Atom),
        V.history (lin.ops t0) = p ++ (now, x) :: q → x ≠ .clear →
        ∃ a a' ks, ARun V.fl V.cap A.empty p a ∧ AStep V.fl V.cap a now x a' ∧ allowedLoss a x a' ks ∧
          ∀ k' y, a.get k' = some y → liveAt V.fl now y → k' ∉ ks →
            (∀ k v al d, x = .ins k v al d true → k' ≠ k) → a'.get k' = some y :=
  (V.conc_clocked_sequential_rules t0 h hh).imp fun _ r => ⟨r.1, r.2.C03⟩

/-- **C05 (TTL retention), concurrent, clock under the lock.** -/
theorem conc_clocked_C05 (t0 : Time) (h : KHistory) (hh : Conc.ImplHistory V.objStepClocked (V.s0, t0) h) :
    ∃ lin, V.ExplainsClocked t0 h lin ∧
      ∀ (p q : List (Time × Atom)) (now : Time) (k : Key) (pk : Bool) (r : Option (Val × Nat)),
        V.history (lin.ops t0) = p ++ (now, .look k pk r) :: q →
        ∃ a a', ARun V.fl V.cap A.empty p a ∧ Coupled a (lastWrite p) ∧
          ∀ y, a.get k = some y → now < y.2 → r.map (·.1) = some y.1 ∧ a' = a :=
  (V.conc_clocked_sequential_rules t0 h hh).imp fun _ r => ⟨r.1, r.2.C05⟩

/-- **C09 (allow modes), concurrent, clock under the lock.** -/
theorem conc_clocked_C09 (t0 : Time) (h : KHistory) (hh : Conc.ImplHistory V.objStepClocked (V.s0, t0) h) :
    ∃ lin, V.ExplainsClocked t0 h lin ∧
      ∀ (p q : List (Time × Atom)) (now : Time) (k : Key) (v : Val) (al : Allow) (d : Time) (ok : Bool),
        V.history (lin.ops t0) = p ++ (now, .ins k v al d ok) :: q →
        ∃ a a', ARun V.fl V.cap A.empty p a ∧
          (al = .insertOrUpdate → ok = true) ∧
          (al = .insert → (ok = true ↔ (a.get k = none ∨ (V.fl = .lazy ∧ ∃ y, a.get k = some y ∧ y.2 ≤ now)))) ∧
          (al = .update → (ok = true ↔ a.get k ≠ none)) ∧
          (ok = false → a' = a) ∧ (ok = true → a'.get k = some (v, d)) :=
  (V.conc_clocked_sequential_rules t0 h hh).imp fun _ r => ⟨r.1, r.2.C09⟩

/-- **C17 (clean_expired_values), concurrent, clock under the lock.** -/
theorem conc_clocked_C17 (hfl : V.fl ≠ .plain) (t0 : Time) (h : KHistory)
    (hh : Conc.ImplHistory V.objStepClocked (V.s0, t0) h) :
    ∃ lin, V.ExplainsClocked t0 h lin ∧
      ∀ (p q : List (Time × Atom)) (now : Time) (n : Nat),
        V.history (lin.ops t0) = p ++ (now, .reap n) :: q →
        ∃ a a', ARun V.fl V.cap A.empty p a ∧ AStep V.fl V.cap a now (.reap n) a' ∧
          a'.size + n = a.size ∧
          (∀ k y, a.get k = some y → now < y.2 → a'.get k = some y) ∧
          (∀ k y, a'.get k = some y → now < y.2 ∧ a.get k = some y) :=
  (V.conc_clocked_sequential_rules t0 h hh).imp fun _ r => ⟨r.1, r.2.C17 hfl⟩

end Verified

/-- **ut_map / ut_set, `thread_safe::yes`.** Every concurrent history (any number of threads, any
schedule, any behaviour of the steady clock, the map constructed when it showed `t0`) has a sequential
explanation with non-decreasing clock readings that obeys the policy-independent rules (C01, C03, C05,
C09, C17; C02's bound does not apply to an unbounded map) and **C04**: every lookup that reports a
value does so strictly before the deadline of the key's latest surviving write. -/
theorem utmapV_conc (ttlMs : Nat) (t0 : Time) (h : KHistory)
    (hh : Conc.ImplHistory (utmapV ttlMs).objStepClocked ((utmapV ttlMs).s0, t0) h) :
    ∃ lin, (utmapV ttlMs).ExplainsClocked t0 h lin ∧ (utmapV ttlMs).SeqRules (lin.ops t0) ∧
      ∀ (p q : List (Time × Atom)) (now : Time) (k : Key) (pk : Bool) (v : Val) (n : Nat),
        (utmapV ttlMs).history (lin.ops t0) = p ++ (now, .look k pk (some (v, n))) :: q →
        ∃ d, lastWrite p k = some (v, d) ∧ now < d :=
  ((utmapV ttlMs).conc_clocked_sequential_rules t0 h hh).imp fun lin r =>
    ⟨r.1, r.2, fun p q now k pk v n hs => C04_utmap ttlMs (lin.ops t0) t0 r.1.times p q now k pk v n hs⟩

/-- **C04 for ut_map / ut_set, concurrent** (on its own). -/
theorem conc_C04_utmap (ttlMs : Nat) (t0 : Time) (h : KHistory)
    (hh : Conc.ImplHistory (utmapV ttlMs).objStepClocked ((utmapV ttlMs).s0, t0) h) :
    ∃ lin, (utmapV ttlMs).ExplainsClocked t0 h lin ∧
      ∀ (p q : List (Time × Atom)) (now : Time) (k : Key) (pk : Bool) (v : Val) (n : Nat),
        (utmapV ttlMs).history (lin.ops t0) = p ++ (now, .look k pk (some (v, n))) :: q →
        ∃ d, lastWrite p k = some (v, d) ∧ now < d :=
  (utmapV_conc ttlMs t0 h hh).imp fun _ r => ⟨r.1, r.2.2⟩

/-! ## 5. non-vacuity -/

namespace ConcExample
open Conc

/-- lru_cache of capacity 2 -/
abbrev L : Verified RecState := lruV 2 (by decide)

/-- thread 0: `insert(1, 10)`, clock reading 5 ms; thread 1: `find(1)`, clock reading 3 ms -/
def opIns : Time × Op := (5 * msNs, .insert 1 10 .insertOrUpdate 0)
def opFind : Time × Op := (3 * msNs, .find 1 false)

/-- the two calls overlap; the `find` is invoked second, returns first, and sees the inserted value -/
def hist : CHistory := [.inv 0 opIns, .inv 1 opFind, .res 1 (.opt (some 10)), .res 0 (.bool true)]

/-- A concrete two-thread run of the implementation machine over `lruV`:
`inv 0 insert; inv 1 find; acquire 0; scribble; finish 0; release 0; acquire 1; finish 1; release 1;
res 1; res 0`.  Thread 1 read the clock (3 ms) before thread 0 did (5 ms) but got the lock after it:
in lock order the readings go backwards. -/
theorem hist_impl : ImplHistory L.objStep L.s0 hist := by
  have e0 : Exec (IStep L.objStep) (iInit L.s0) [] _ := Exec.refl
  have e1 := Exec.snoc e0 (IStep.inv _ 0 opIns rfl)
  have e2 := Exec.snoc e1 (IStep.inv _ 1 opFind rfl)
  have e3 := Exec.snoc e2 (IStep.acquire _ 0 opIns rfl rfl)
  have e4 := Exec.snoc e3 (IStep.scribble _ 0 opIns { cap := 7, ents := [] } rfl rfl)
  have e5 := Exec.snoc e4 (IStep.finish _ 0 opIns rfl rfl)
  have e6 := Exec.snoc e5 (IStep.release _ 0 (.bool true) rfl rfl)
  have e7 := Exec.snoc e6 (IStep.acquire _ 1 opFind rfl rfl)
  have e8 := Exec.snoc e7 (IStep.finish _ 1 opFind rfl rfl)
  have e9 := Exec.snoc e8 (IStep.release _ 1 (.opt (some 10)) rfl rfl)
  have e10 := Exec.snoc e9 (IStep.res _ 1 (.opt (some 10)) rfl)
  have e11 := Exec.snoc e10 (IStep.res _ 0 (.bool true) rfl)
  exact ⟨_, e11⟩

/-- the composed theorem applies to it: the history has a sequential explanation obeying the rules and C10 -/
example := conc_C10_lru 2 (by decide) hist hist_impl

/-- and here is that explanation, explicitly: `insert` (clock 5 ms) then `find` (clock 3 ms) — legal for
the object, so `Core.run` over it returns `true`, `some 10`; its clock readings are not monotone -/
example : Legal L.objStep L.s0 [(opIns, .bool true), (opFind, .opt (some 10))] := ⟨rfl, rfl, trivial⟩

example : (L.c.run L.s0 [opIns, opFind]).2 = [.bool true, .opt (some 10)] := rfl

example : ¬ TimesFrom 0 [opIns, opFind] := by simp [TimesFrom, opIns, opFind, msNs]

/-- the empty history, and a single completed call, for any container -/
example {σ : Type} (V : Verified σ) : ImplHistory V.objStep V.s0 [] := ⟨_, Exec.refl⟩

example {σ : Type} (V : Verified σ) (x : Time × Op) :
    ImplHistory V.objStep V.s0 [.inv 0 x, .res 0 (V.objStep V.s0 x).2] := by
  have e0 : Exec (IStep V.objStep) (iInit V.s0) [] _ := Exec.refl
  have e1 := Exec.snoc e0 (IStep.inv _ 0 x rfl)
  have e2 := Exec.snoc e1 (IStep.acquire _ 0 x rfl rfl)
  have e3 := Exec.snoc e2 (IStep.finish _ 0 x rfl rfl)
  have e4 := Exec.snoc e3 (IStep.release _ 0 _ rfl rfl)
  have e5 := Exec.snoc e4 (IStep.res _ 0 _ rfl)
  exact ⟨_, e5⟩

/-- ut_map with a 100 ms TTL, constructed at clock 0: thread 0 inserts key 1 (the clock has advanced
2 ms when it reads it under the lock), thread 1's overlapping `find(1)` gets the lock next (1 ms later) -/
abbrev U : Verified UtMapState := utmapV 100

def kIns : Nat × Op := (2 * msNs, .insert 1 10 .insertOrUpdate 0)
def kFind : Nat × Op := (1 * msNs, .find 1 false)

def khist : KHistory := [.inv 0 kIns, .inv 1 kFind, .res 1 (.opt (some 10)), .res 0 (.bool true)]

theorem khist_impl : ImplHistory U.objStepClocked (U.s0, 0) khist := by
  have e0 : Exec (IStep U.objStepClocked) (iInit (U.s0, 0)) [] _ := Exec.refl
  have e1 := Exec.snoc e0 (IStep.inv _ 0 kIns rfl)
  have e2 := Exec.snoc e1 (IStep.inv _ 1 kFind rfl)
  have e3 := Exec.snoc e2 (IStep.acquire _ 0 kIns rfl rfl)
  have e5 := Exec.snoc e3 (IStep.finish _ 0 kIns rfl rfl)
  have e6 := Exec.snoc e5 (IStep.release _ 0 (.bool true) rfl rfl)
  have e7 := Exec.snoc e6 (IStep.acquire _ 1 kFind rfl rfl)
  have e8 := Exec.snoc e7 (IStep.finish _ 1 kFind rfl rfl)
  have e9 := Exec.snoc e8 (IStep.release _ 1 (.opt (some 10)) rfl rfl)
  have e10 := Exec.snoc e9 (IStep.res _ 1 (.opt (some 10)) rfl)
  have e11 := Exec.snoc e10 (IStep.res _ 0 (.bool true) rfl)
  exact ⟨_, e11⟩

example := utmapV_conc 100 0 khist khist_impl

end ConcExample

end Verif

#print axioms Verif.Core.legal_iff_run
#print axioms Verif.Verified.linearization_is_history
#print axioms Verif.Verified.conc_explained
#print axioms Verif.Verified.linearization_sequential_rules
#print axioms Verif.Verified.conc_sequential_rules
#print axioms Verif.Verified.conc_C01
#print axioms Verif.Verified.conc_C02_bound
#print axioms Verif.Verified.conc_C03
#print axioms Verif.Verified.conc_C05
#print axioms Verif.Verified.conc_C09
#print axioms Verif.Verified.conc_C17
#print axioms Verif.lruV_conc
#print axioms Verif.mruV_conc
#print axioms Verif.fifoV_conc
#print axioms Verif.rrV_conc
#print axioms Verif.lfuV_conc
#print axioms Verif.lfudaV_conc
#print axioms Verif.tlruV_conc
#print axioms Verif.utlruV_conc
#print axioms Verif.conc_C10_lru
#print axioms Verif.conc_C13_mru
#print axioms Verif.conc_C12_fifo
#print axioms Verif.conc_C11_lfu
#print axioms Verif.conc_C15_rr
#print axioms Verif.conc_C10_C16_tlru
#print axioms Verif.conc_C10_C16_utlru
#print axioms Verif.Core.legal_clocked_iff_run
#print axioms Verif.Verified.linearization_is_history_clocked
#print axioms Verif.Verified.conc_explained_clocked
#print axioms Verif.Verified.linearization_clocked_sequential_rules
#print axioms Verif.Verified.conc_clocked_sequential_rules
#print axioms Verif.Verified.conc_clocked_C01
#print axioms Verif.Verified.conc_clocked_C02_bound
#print axioms Verif.Verified.conc_clocked_C03
#print axioms Verif.Verified.conc_clocked_C05
#print axioms Verif.Verified.conc_clocked_C09
#print axioms Verif.Verified.conc_clocked_C17
#print axioms Verif.utmapV_conc
#print axioms Verif.conc_C04_utmap
#print axioms Verif.ConcExample.hist_impl
#print axioms Verif.ConcExample.khist_impl
