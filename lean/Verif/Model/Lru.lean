import Verif.Basic
/-!
# L1 model of `lru_cache` (lru_cache.hpp) and `mru_cache` (mru_cache.hpp)

State: the resident entries, least recently used first. The C++ keeps the used prefix of
`m_lru_list` most-recent-first and evicts `back()`; the model list is that prefix reversed, so the
LRU victim is the head. `mru_cache` keeps its used prefix oldest-first and evicts `back()` (it only
prunes when full, when the used prefix is the whole list): the same list, victim = last.
-/
namespace Verif

structure RecState where
  cap : Nat
  /-- least recently used first -/
  ents : List Entry
  deriving DecidableEq, Repr

namespace Rec

/-- `do_access`: move to the most-recently-used end -/
def touch (l : List Entry) (e : Entry) : List Entry := delE l e.key ++ [e]

/-- which end `do_prune` takes -/
inductive Victim | oldest | newest deriving DecidableEq, Repr

def prune (v : Victim) (l : List Entry) : List Entry :=
  match v with
  | .oldest => l.tail
  | .newest => l.dropLast

def insert1 (vic : Victim) (s : RecState) (k : Key) (v : Val) (a : Allow) : RecState × Bool :=
  match getE s.ents k with
  | some e =>
    if a.upd then ({ s with ents := touch s.ents { e with val := v } }, true) else (s, false)
  | none =>
    if a.ins then
      let base := if s.ents.length ≥ s.cap then prune vic s.ents else s.ents
      ({ s with ents := base ++ [{ key := k, val := v }] }, true)
    else (s, false)

def find1 (s : RecState) (k : Key) (peek : Bool) : RecState × Option (Val × Nat) :=
  match getE s.ents k with
  | some e => (if peek then s else { s with ents := touch s.ents e }, some (e.val, 0))
  | none => (s, none)

def erase1 (s : RecState) (k : Key) : RecState × Bool :=
  match getE s.ents k with
  | some _ => ({ s with ents := delE s.ents k }, true)
  | none => (s, false)

def core (vic : Victim) : Core RecState where
  pre s _ := s
  insert1 s _ k v a _ := insert1 vic s k v a
  find1 s _ k peek := find1 s k peek
  erase1 := erase1
  hasClear := false
  clear s := s
  clean s _ := (s, 0)
  age s _ := (s, 0)
  updateTtl s _ := s
  size s := s.ents.length
  capacity s := s.cap
  dlOf _ _ _ := 0
  look s _ k := (getE s.ents k).map (fun e => (e.val, 0))

def init (cap : Nat) : RecState := { cap, ents := [] }

end Rec

def Lru.core : Core RecState := Rec.core .oldest
def Mru.core : Core RecState := Rec.core .newest

end Verif
