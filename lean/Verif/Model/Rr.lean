import Verif.Basic
/-!
# Model of `rr_cache` (rr_cache.hpp), with slot ids

`do_prune` draws `r` uniformly from `[0, size-1]` and erases *element index* `r`; it is only reached
when the cache is full, when every slot id `0 .. cap-1` is in use, so the victim is the entry stored
in slot `r`. To say which key that is the model keeps each entry's slot id and the stack of free slot
ids: `m_open_list[m_open_list_end ..]`, whose first element is the slot the next insert claims;
`do_erase` puts the freed slot id at position `m_open_list_end - 1`, i.e. pushes it on that stack.
The random outcomes are an explicit stream `rnd`, one consumed per eviction; an exhausted stream
yields 0.
-/
namespace Verif

structure RrState where
  cap : Nat
  ents : List Entry
  /-- free slot ids, next to be claimed first -/
  free : List Nat
  /-- remaining outcomes of the random source -/
  rnd : List Nat
  deriving DecidableEq, Repr

namespace Rr

def setVal (l : List Entry) (k : Key) (v : Val) : List Entry :=
  l.map (fun e => if e.key = k then { e with val := v } else e)

/-- the entry stored in slot `r` -/
def atSlot (l : List Entry) (r : Nat) : Option Entry := l.find? (fun e => decide (e.slot = r))

/-- `do_prune`: consume one random outcome, free the slot it names -/
def prune (s : RrState) : RrState :=
  let r := s.rnd.headD 0
  match atSlot s.ents r with
  | some e => { s with ents := delE s.ents e.key, free := r :: s.free, rnd := s.rnd.tail }
  | none => { s with rnd := s.rnd.tail }

def insert1 (s : RrState) (k : Key) (v : Val) (a : Allow) : RrState × Bool :=
  match getE s.ents k with
  | some _ =>
    if a.upd then ({ s with ents := setVal s.ents k v }, true) else (s, false)
  | none =>
    if a.ins then
      let s1 := if s.ents.length ≥ s.cap then prune s else s
      ({ s1 with ents := s1.ents ++ [{ key := k, val := v, slot := s1.free.headD 0 }],
                 free := s1.free.tail }, true)
    else (s, false)

def find1 (s : RrState) (k : Key) : RrState × Option (Val × Nat) :=
  (s, (getE s.ents k).map (fun e => (e.val, 0)))

def erase1 (s : RrState) (k : Key) : RrState × Bool :=
  match getE s.ents k with
  | some e => ({ s with ents := delE s.ents k, free := e.slot :: s.free }, true)
  | none => (s, false)

def core : Core RrState where
  pre s _ := s
  insert1 s _ k v a _ := insert1 s k v a
  find1 s _ k _ := find1 s k
  erase1 := erase1
  hasClear := false
  clear s := s
  clean s _ := (s, 0)
  age s _ := (s, 0)
  updateTtl s _ := s
  size s := s.ents.length
  capacity s := s.cap
  dlOf _ _ _ := 0
  look s _ k := (getE s.ents k).map (fun e => (e.val, 0))

def init (cap : Nat) (rnd : List Nat) : RrState :=
  { cap, ents := [], free := List.range cap, rnd }

end Rr
end Verif
