import Verif.Basic
/-!
# L1 models of `tlru_cache`, `utlru_cache`, `ut_map`, `ut_set`

tlru/utlru: `ents` is the recency order (least recently used first, as in `Model/Lru.lean`), each
entry with its deadline; `tq` is the ttl structure, a list of keys in the order the C++ walks it:
tlru's `std::multimap<time_point, …>` (deadline ascending, equal deadlines in filing order), utlru's
`m_ttl_list` (with the D3 fix filed the same way, scanning from the tail). Expired entries stay
resident until a lookup of their key, a `clean_expired_values`, or an eviction removes them.

ut_map/ut_set: `tq` is `m_ttl_list`, entries in write order; every public call first removes the
maximal expired *prefix* (`do_prune`). ut_set is ut_map with every value 1.
-/
namespace Verif

structure TlruState where
  cap : Nat
  /-- uniform TTL in ns (utlru; unused by tlru) -/
  ttl : Nat
  /-- least recently used first -/
  ents : List Entry
  /-- ttl structure: (deadline, key), deadline ascending, stable -/
  tq : List (Time × Key)
  deriving DecidableEq, Repr

namespace Tlru

/-- `multimap::emplace(expire_time, idx)` / the repaired utlru filing -/
def fileDl (l : List (Time × Key)) (d : Time) (k : Key) : List (Time × Key) :=
  match l with
  | [] => [(d, k)]
  | x :: xs => if x.1 ≤ d then x :: fileDl xs d k else (d, k) :: x :: xs

def unfile (l : List (Time × Key)) (k : Key) : List (Time × Key) :=
  l.filter (fun x => !decide (x.2 = k))

/-- `do_erase` -/
def removeKey (s : TlruState) (k : Key) : TlruState :=
  { s with ents := delE s.ents k, tq := unfile s.tq k }

/-- `do_update` + `do_access` -/
def update (s : TlruState) (e : Entry) (v : Val) (d : Time) : TlruState :=
  { s with ents := delE s.ents e.key ++ [{ e with val := v, dl := d }],
           tq := fileDl (unfile s.tq e.key) d e.key }

/-- `do_prune`: the head of the ttl structure if it has expired, else the least recently used -/
def prune (s : TlruState) (now : Time) : TlruState :=
  match s.tq with
  | [] => s
  | (d, k) :: _ =>
    if d ≤ now then removeKey s k
    else match s.ents with
      | [] => s
      | e :: _ => removeKey s e.key

/-- `do_insert_update`; `d` is the deadline computed by the caller -/
def insert1 (s : TlruState) (now : Time) (k : Key) (v : Val) (a : Allow) (d : Time) : TlruState × Bool :=
  match getE s.ents k with
  | some e =>
    if a.upd then (update s e v d, true)
    else if a.ins then
      if e.dl ≤ now then (update s e v d, true) else (s, false)
    else (s, false)
  | none =>
    if a.ins then
      let s1 := if s.ents.length ≥ s.cap then prune s now else s
      ({ s1 with ents := s1.ents ++ [{ key := k, val := v, dl := d }], tq := fileDl s1.tq d k }, true)
    else (s, false)

def find1 (s : TlruState) (now : Time) (k : Key) (peek : Bool) : TlruState × Option (Val × Nat) :=
  match getE s.ents k with
  | some e =>
    if now < e.dl then
      (if peek then s else { s with ents := delE s.ents k ++ [e] }, some (e.val, 0))
    else (removeKey s k, none)
  | none => (s, none)

def erase1 (s : TlruState) (k : Key) : TlruState × Bool :=
  match getE s.ents k with
  | some _ => (removeKey s k, true)
  | none => (s, false)

/-- `clean_expired_values`: erase the head of the ttl structure while it has expired.
Structural recursion on the ttl structure. -/
def cleanLoop (now : Time) : List (Time × Key) → List Key
  | [] => []
  | (d, k) :: rest => if d ≤ now then k :: cleanLoop now rest else []

def clean (s : TlruState) (now : Time) : TlruState × Nat :=
  let ks := cleanLoop now s.tq
  (ks.foldl removeKey s, ks.length)

def look (s : TlruState) (now : Time) (k : Key) : Option (Val × Nat) :=
  match getE s.ents k with
  | some e => if now < e.dl then some (e.val, 0) else none
  | none => none

/-- tlru: the TTL comes with each call -/
def core : Core TlruState where
  pre s _ := s
  insert1 s now k v a ttl := insert1 s now k v a (now + ttl * msNs)
  find1 := find1
  erase1 := erase1
  hasClear := false
  clear s := s
  clean := clean
  age s _ := (s, 0)
  updateTtl s _ := s
  size s := s.ents.length
  capacity s := s.cap
  dlOf _ now ttl := now + ttl * msNs
  look := look

def init (cap : Nat) : TlruState := { cap, ttl := 0, ents := [], tq := [] }

end Tlru

namespace Utlru

/-- utlru: the TTL is the configured one (read once per public call) -/
def core : Core TlruState where
  pre s _ := s
  insert1 s now k v a _ := Tlru.insert1 s now k v a (now + s.ttl)
  find1 := Tlru.find1
  erase1 := Tlru.erase1
  hasClear := true
  clear s := { s with ents := [], tq := [] }
  clean := Tlru.clean
  age s _ := (s, 0)
  updateTtl s t := { s with ttl := t * msNs }
  size s := s.ents.length
  capacity s := s.cap
  dlOf s now _ := now + s.ttl
  look := Tlru.look

def init (cap ttlMs : Nat) : TlruState := { cap, ttl := ttlMs * msNs, ents := [], tq := [] }

end Utlru

structure UtMapState where
  /-- uniform TTL in ns -/
  ttl : Nat
  /-- `m_ttl_list`: write order -/
  tq : List Entry
  deriving DecidableEq, Repr

namespace UtMap

/-- `do_prune`: drop the maximal expired prefix, report its length -/
def purge (l : List Entry) (now : Time) : List Entry := l.dropWhile (fun e => decide (e.dl ≤ now))

def purged (l : List Entry) (now : Time) : Nat := (l.takeWhile (fun e => decide (e.dl ≤ now))).length

def insert1 (s : UtMapState) (now : Time) (k : Key) (v : Val) (a : Allow) : UtMapState × Bool :=
  match getE s.tq k with
  | some e =>
    if a.upd then ({ s with tq := delE s.tq k ++ [{ e with val := v, dl := now + s.ttl }] }, true)
    else (s, false)
  | none =>
    if a.ins then ({ s with tq := s.tq ++ [{ key := k, val := v, dl := now + s.ttl }] }, true)
    else (s, false)

def find1 (s : UtMapState) (k : Key) : UtMapState × Option (Val × Nat) :=
  (s, (getE s.tq k).map (fun e => (e.val, 0)))

def erase1 (s : UtMapState) (k : Key) : UtMapState × Bool :=
  match getE s.tq k with
  | some _ => ({ s with tq := delE s.tq k }, true)
  | none => (s, false)

def core : Core UtMapState where
  pre s now := { s with tq := purge s.tq now }
  insert1 s now k v a _ := insert1 s now k v a
  find1 s _ k _ := find1 s k
  erase1 := erase1
  hasClear := true
  clear s := { s with tq := [] }
  clean s now := ({ s with tq := purge s.tq now }, purged s.tq now)
  age s _ := (s, 0)
  updateTtl s _ := s
  size s := s.tq.length
  capacity _ := 0
  dlOf s now _ := now + s.ttl
  look s now k := (getE (purge s.tq now) k).map (fun e => (e.val, 0))

def init (ttlMs : Nat) : UtMapState := { ttl := ttlMs * msNs, tq := [] }

end UtMap
end Verif
