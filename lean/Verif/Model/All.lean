import Verif.Model.Lru
import Verif.Model.Fifo
import Verif.Model.Rr
import Verif.Model.Lfu
import Verif.Model.Ttl
/-!
# The ten containers behind one interface (what the driver executes)
-/
namespace Verif

inductive MState
  | lru (s : RecState)
  | mru (s : RecState)
  | fifo (s : FifoState)
  | rr (s : RrState)
  | lfu (s : LfuState)
  | lfuda (s : LfudaState)
  | tlru (s : TlruState)
  | utlru (s : TlruState)
  | utmap (s : UtMapState)
  deriving DecidableEq, Repr

def MState.init (c : Cfg) : MState :=
  match c.kind with
  | .lru => .lru (Rec.init c.cap)
  | .mru => .mru (Rec.init c.cap)
  | .fifo => .fifo (Fifo.init c.cap)
  | .rr => .rr (Rr.init c.cap c.rnd)
  | .lfu => .lfu (Lfu.init c.cap)
  | .lfuda => .lfuda (Lfuda.init c.cap c.tick c.num c.den)
  | .tlru => .tlru (Tlru.init c.cap)
  | .utlru => .utlru (Utlru.init c.cap c.ttl)
  | .utmap => .utmap (UtMap.init c.ttl)
  | .utset => .utmap (UtMap.init c.ttl)

def MState.step (m : MState) (now : Time) (op : Op) : MState × Out :=
  match m with
  | .lru s => let r := Lru.core.step s now op; (.lru r.1, r.2)
  | .mru s => let r := Mru.core.step s now op; (.mru r.1, r.2)
  | .fifo s => let r := Fifo.core.step s now op; (.fifo r.1, r.2)
  | .rr s => let r := Rr.core.step s now op; (.rr r.1, r.2)
  | .lfu s => let r := Lfu.core.step s now op; (.lfu r.1, r.2)
  | .lfuda s => let r := Lfuda.core.step s now op; (.lfuda r.1, r.2)
  | .tlru s => let r := Tlru.core.step s now op; (.tlru r.1, r.2)
  | .utlru s => let r := Utlru.core.step s now op; (.utlru r.1, r.2)
  | .utmap s => let r := UtMap.core.step s now op; (.utmap r.1, r.2)

def MState.size : MState → Nat
  | .lru s => Lru.core.size s
  | .mru s => Mru.core.size s
  | .fifo s => Fifo.core.size s
  | .rr s => Rr.core.size s
  | .lfu s => Lfu.core.size s
  | .lfuda s => Lfuda.core.size s
  | .tlru s => Tlru.core.size s
  | .utlru s => Utlru.core.size s
  | .utmap s => UtMap.core.size s

def MState.capacity : MState → Nat
  | .lru s => Lru.core.capacity s
  | .mru s => Mru.core.capacity s
  | .fifo s => Fifo.core.capacity s
  | .rr s => Rr.core.capacity s
  | .lfu s => Lfu.core.capacity s
  | .lfuda s => Lfuda.core.capacity s
  | .tlru s => Tlru.core.capacity s
  | .utlru s => Utlru.core.capacity s
  | .utmap s => UtMap.core.capacity s

def MState.sweep (m : MState) (now : Time) (n : Nat) : List (Key × Val × Nat) :=
  match m with
  | .lru s => Lru.core.sweep s now n
  | .mru s => Mru.core.sweep s now n
  | .fifo s => Fifo.core.sweep s now n
  | .rr s => Rr.core.sweep s now n
  | .lfu s => Lfu.core.sweep s now n
  | .lfuda s => Lfuda.core.sweep s now n
  | .tlru s => Tlru.core.sweep s now n
  | .utlru s => Utlru.core.sweep s now n
  | .utmap s => UtMap.core.sweep s now n

end Verif
