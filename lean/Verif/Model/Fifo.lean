import Verif.Basic
/-!
# L1 model of `fifo_cache` (fifo_cache.hpp)

State: resident entries in insertion order, earliest first. `do_insert` recycles the head node of
`m_fifo_list`; free nodes always form a prefix of that list (erase moves a node to the head), so the
head holds a key exactly when the cache is full — then that key, the earliest inserted, is evicted.
Updates write the value in place, lookups touch nothing.
-/
namespace Verif

structure FifoState where
  cap : Nat
  /-- earliest inserted first -/
  ents : List Entry
  deriving DecidableEq, Repr

namespace Fifo

/-- `do_update`: value replaced, position kept -/
def setVal (l : List Entry) (k : Key) (v : Val) : List Entry :=
  l.map (fun e => if e.key = k then { e with val := v } else e)

def insert1 (s : FifoState) (k : Key) (v : Val) (a : Allow) : FifoState × Bool :=
  match getE s.ents k with
  | some _ =>
    if a.upd then ({ s with ents := setVal s.ents k v }, true) else (s, false)
  | none =>
    if a.ins then
      let base := if s.ents.length ≥ s.cap then s.ents.tail else s.ents
      ({ s with ents := base ++ [{ key := k, val := v }] }, true)
    else (s, false)

def find1 (s : FifoState) (k : Key) : FifoState × Option (Val × Nat) :=
  (s, (getE s.ents k).map (fun e => (e.val, 0)))

def erase1 (s : FifoState) (k : Key) : FifoState × Bool :=
  match getE s.ents k with
  | some _ => ({ s with ents := delE s.ents k }, true)
  | none => (s, false)

def core : Core FifoState where
  pre s _ := s
  insert1 s _ k v a _ := insert1 s k v a
  find1 s _ k _ := find1 s k
  erase1 := erase1
  hasClear := false
  clear s := s
  clean s _ := (s, 0)
  age s _ := (s, 0)
  updateTtl s _ := s
  size s := s.ents.length
  capacity s := s.cap
  dlOf _ _ _ := 0
  look s _ k := (getE s.ents k).map (fun e => (e.val, 0))

def init (cap : Nat) : FifoState := { cap, ents := [] }

end Fifo
end Verif
