import Verif.Basic
/-!
# L1 models of `lfu_cache` (lfu_cache.hpp) and `lfuda_cache` (lfuda_cache.hpp)

`m_lfu_list` is a `std::multimap<size_t, …>`: ordered by use count, and `emplace` puts a new node
after every node with an equal key (C++11 [associative.reqmts]). The model keeps the resident
entries in exactly that order, so the victim `m_lfu_list.begin()` is the head. `file` is `emplace`.

lfuda adds a stamp per entry and the in-use prefix of `m_dynamic_age_list`, oldest stamp first
(`age`, a list of keys).
-/
namespace Verif

/-- `multimap::emplace`: after the last entry whose count is `≤` the new one's -/
def fileCnt (l : List Entry) (e : Entry) : List Entry :=
  match l with
  | [] => [e]
  | x :: xs => if x.cnt ≤ e.cnt then x :: fileCnt xs e else e :: x :: xs

structure LfuState where
  cap : Nat
  /-- multimap order: count ascending, equal counts in filing order -/
  ents : List Entry
  deriving DecidableEq, Repr

namespace Lfu

/-- `do_access`: re-file at count + 1 -/
def access (l : List Entry) (e : Entry) : List Entry :=
  fileCnt (delE l e.key) { e with cnt := e.cnt + 1 }

def insert1 (s : LfuState) (k : Key) (v : Val) (a : Allow) : LfuState × Bool :=
  match getE s.ents k with
  | some e =>
    if a.upd then ({ s with ents := access s.ents { e with val := v } }, true) else (s, false)
  | none =>
    if a.ins then
      let base := if s.ents.length ≥ s.cap then s.ents.tail else s.ents
      ({ s with ents := fileCnt base { key := k, val := v, cnt := 1 } }, true)
    else (s, false)

def find1 (s : LfuState) (k : Key) (peek : Bool) : LfuState × Option (Val × Nat) :=
  match getE s.ents k with
  | some e =>
    if peek then (s, some (e.val, e.cnt))
    else ({ s with ents := access s.ents e }, some (e.val, e.cnt + 1))
  | none => (s, none)

def erase1 (s : LfuState) (k : Key) : LfuState × Bool :=
  match getE s.ents k with
  | some _ => ({ s with ents := delE s.ents k }, true)
  | none => (s, false)

def core : Core LfuState where
  pre s _ := s
  insert1 s _ k v a _ := insert1 s k v a
  find1 s _ k peek := find1 s k peek
  erase1 := erase1
  hasClear := false
  clear s := s
  clean s _ := (s, 0)
  age s _ := (s, 0)
  updateTtl s _ := s
  size s := s.ents.length
  capacity s := s.cap
  dlOf _ _ _ := 0
  look s _ k := (getE s.ents k).map (fun e => (e.val, e.cnt))

def init (cap : Nat) : LfuState := { cap, ents := [] }

end Lfu

structure LfudaState where
  cap : Nat
  /-- tick in ns -/
  tick : Nat
  num : Nat
  den : Nat
  /-- multimap order -/
  ents : List Entry
  /-- in-use prefix of `m_dynamic_age_list`: keys, oldest stamp first -/
  age : List Key
  deriving DecidableEq, Repr

namespace Lfuda

/-- `do_access` (with the D2 fix: the used entry goes to the young end of the age list) -/
def access (s : LfudaState) (e : Entry) (now : Time) : LfudaState :=
  { s with ents := fileCnt (delE s.ents e.key) { e with cnt := e.cnt + 1, stamp := now },
           age := s.age.filter (fun k => !decide (k = e.key)) ++ [e.key] }

/-- is the entry filed under `k` idle for strictly longer than the tick? -/
def idle (s : LfudaState) (now : Time) (k : Key) : Bool :=
  match getE s.ents k with
  | some e => decide (e.stamp + s.tick < now)
  | none => false

/-- one step of the aging walk: scale the count, stamp, re-file -/
def ageOne (now : Time) (num den : Nat) (l : List Entry) (k : Key) : List Entry :=
  match getE l k with
  | some e => fileCnt (delE l k) { e with cnt := e.cnt * num / den, stamp := now }
  | none => l

/-- `do_dynamic_age`: the walk takes the maximal idle prefix of the age list, in order; each aged
node is spliced in front of the previously aged one, so they end up reversed at the young end. -/
def dynAge (s : LfudaState) (now : Time) : LfudaState × Nat :=
  let old := s.age.takeWhile (idle s now)
  let young := s.age.dropWhile (idle s now)
  ({ s with ents := old.foldl (ageOne now s.num s.den) s.ents, age := young ++ old.reverse },
   old.length)

def removeKey (s : LfudaState) (k : Key) : LfudaState :=
  { s with ents := delE s.ents k, age := s.age.filter (fun x => !decide (x = k)) }

/-- `do_prune`: age, then evict the head of the multimap -/
def prune (s : LfudaState) (now : Time) : LfudaState :=
  let s1 := (dynAge s now).1
  match s1.ents with
  | [] => s1
  | e :: _ => removeKey s1 e.key

def insert1 (s : LfudaState) (now : Time) (k : Key) (v : Val) (a : Allow) : LfudaState × Bool :=
  match getE s.ents k with
  | some e =>
    if a.upd then (access s { e with val := v } now, true) else (s, false)
  | none =>
    if a.ins then
      let s1 := if s.ents.length ≥ s.cap then prune s now else s
      ({ s1 with ents := fileCnt s1.ents { key := k, val := v, cnt := 1, stamp := now },
                 age := s1.age ++ [k] }, true)
    else (s, false)

def find1 (s : LfudaState) (now : Time) (k : Key) (peek : Bool) : LfudaState × Option (Val × Nat) :=
  match getE s.ents k with
  | some e =>
    if peek then (s, some (e.val, e.cnt))
    else (access s e now, some (e.val, e.cnt + 1))
  | none => (s, none)

def erase1 (s : LfudaState) (k : Key) : LfudaState × Bool :=
  match getE s.ents k with
  | some _ => (removeKey s k, true)
  | none => (s, false)

def core : Core LfudaState where
  pre s _ := s
  insert1 s now k v a _ := insert1 s now k v a
  find1 := find1
  erase1 := erase1
  hasClear := false
  clear s := s
  clean s _ := (s, 0)
  age := dynAge
  updateTtl s _ := s
  size s := s.ents.length
  capacity s := s.cap
  dlOf _ _ _ := 0
  look s _ k := (getE s.ents k).map (fun e => (e.val, e.cnt))

def init (cap tickMs num den : Nat) : LfudaState :=
  { cap, tick := tickMs * msNs, num, den, ents := [], age := [] }

end Lfuda
end Verif
