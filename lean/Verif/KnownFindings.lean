import Verif.Proofs.Eager
import Verif.Proofs.NonInterference
/-!
# Known findings KF1–KF3 as theorems about the models: the letter of C18 / C02 / C19 is *false* there

`C18_utmap` carries the hypotheses `0 < ttl` and `singles op ≠ []`; `C19_tlru` says "removes only entries
already expired" rather than "changes nothing observable".  These are not weaknesses of the proofs: at the
excluded points the full-strength statements are false of the models — and of the code, on which the same
scripts (`/verif/kf/*.txt`) are replayed by every run of the C18 / C02 / C19 checks (`KNOWN-FINDING:` lines).
Each theorem below evaluates the model on exactly that replay script (kernel evaluation, `decide`).
-/
namespace Verif.KnownFindings
open Verif

def t0 : Time := 1000000000

/-- **KF1** (C18, ut_map/ut_set constructed with TTL 0): the range insert leaves three entries, the same three
single inserts leave one (each single call's purge removes its predecessor's already-expired write), so
`size()` is 3 on one twin and 1 on the other.  The C18 state equation fails although no key is live on either. -/
theorem KF1_range_differs_from_singles :
    let op := Op.insertRange [(0, 101, 0), (1, 102, 0), (2, 103, 0)] .insertOrUpdate
    let viaRange := (UtMap.core.step (UtMap.init 0) t0 op).1
    let viaSingles := (UtMap.core.run (UtMap.init 0) ((singles op).map (fun o => (t0, o)))).1
    UtMap.core.size viaRange = 3 ∧ UtMap.core.size viaSingles = 1 ∧ viaRange ≠ viaSingles := by
  decide

/-- **KF1b** (C02, same configuration): right after `insert` the size is 1 although a lookup at the same
instant finds nothing — `size()` ≠ number of live keys. -/
theorem KF1b_size_counts_a_dead_entry :
    let s := (UtMap.core.step (UtMap.init 0) t0 (.insert 0 101 .insertOrUpdate 0)).1
    UtMap.core.size s = 1 ∧ (UtMap.core.step s t0 (.find 0 false)).2 = .opt none := by
  decide

/-- **KF2** (C18, ut_map/ut_set, TTL 1 ms): a range call with *no* elements still runs the per-call purge;
zero single calls do nothing.  After the entry has expired, `find_range({})` changes the state (size 1 → 0). -/
theorem KF2_empty_range_purges :
    let s := (UtMap.core.step (UtMap.init 1) t0 (.insert 0 101 .insertOrUpdate 0)).1
    let op := Op.findRange [] false
    singles op = [] ∧
    UtMap.core.size (UtMap.core.step s (t0 + 2 * msNs) op).1 = 0 ∧
    UtMap.core.size (UtMap.core.run s ((singles op).map (fun o => (t0 + 2 * msNs, o)))).1 = 1 := by
  decide

/-- **KF3** (C19, tlru): a peek lookup that misses because the entry has expired reaps it, and a later
`clean_expired_values()` returns 0 instead of 1.  C19 allows a difference in `size()` and in erase /
update-only results only. -/
theorem KF3_clean_count_differs_after_a_peek :
    let s := (Tlru.core.step (Tlru.init 2) t0 (.insert 0 101 .insertOrUpdate 1)).1
    let later := t0 + 2 * msNs
    let s' := (Tlru.core.step s later (.find 0 true)).1
    (Tlru.core.step s later (.find 0 true)).2 = .opt none ∧
    (Tlru.core.step s later .clean).2 = .nat 1 ∧ (Tlru.core.step s' later .clean).2 = .nat 0 := by
  decide

end Verif.KnownFindings
