import Verif
/-!
# Driver: reads `cfg` / `ev` / `end` lines on stdin, prints one verdict line per script and check
-/
open Verif Verif.Proto Verif.Check Verif.Accept Verif.Twin Verif.Lin Verif.CheckL2

structure Script where
  idx : Nat := 0
  cfg : Option (Cfg × Nat × String) := none
  evs : Array Event := #[]
  hs : Array HOp := #[]
  sts : Array (Nat × String) := #[]
  bad : Option String := none
  live : Option (Int × Int) := none

def finish (s : Script) : IO Unit := do
  match s.bad, s.cfg with
  | some b, _ => IO.println s!"S {s.idx} BAD {b}"
  | none, none => IO.println s!"S {s.idx} BAD no-cfg"
  | none, some (cfg, _, "hist") =>
    match Lin.check cfg s.hs.toList with
    | (some true, u) => IO.println s!"S {s.idx} LIN OK n={s.hs.size} nodes={u}"
    | (some false, u) => IO.println s!"S {s.idx} LIN FAIL n={s.hs.size} nodes={u}"
    | (none, u) => IO.println s!"S {s.idx} LIN UNDECIDED n={s.hs.size} nodes={u}"
  | none, some (cfg, nkeys, mode) =>
    let evs := s.evs.toList
    IO.println s!"S {s.idx} STAT kind={kindName cfg.kind} mode={mode} {(stat evs).show}"
    match l1 cfg nkeys evs with
    | none => IO.println s!"S {s.idx} L1 OK n={evs.length}"
    | some d => IO.println s!"S {s.idx} L1 DIFF {d.show}"
    for inst in [0, 1] do
      let ie := evs.filter (·.inst == inst)
      if !ie.isEmpty then
        match accept cfg nkeys ie with
        | (none, mx) => IO.println s!"S {s.idx} ACC OK inst={inst} n={ie.length} maxcands={mx}"
        | (some f, _) =>
          IO.println s!"S {s.idx} ACC FAIL inst={inst} ev={f.ev} props={",".intercalate f.props} {f.detail}"
    let tw : Option (String × Verdict) :=
      if mode == "c18" then some ("C18", c18 cfg.kind evs)
      else if mode == "c19" then some ("C19", c19 cfg.kind evs)
      else if mode == "c20" then some ("C20", c20 evs)
      else none
    match tw with
    | some (p, .ok n kf) => IO.println s!"S {s.idx} TWIN {p} OK n={n} kf={",".intercalate kf}"
    | some (p, .fail ev dt) => IO.println s!"S {s.idx} TWIN {p} FAIL ev={ev} {dt}"
    | none => pure ()
    if !s.sts.isEmpty then
      match CheckL2.check cfg evs s.sts.toList with
      | some (none, n) => IO.println s!"S {s.idx} L2 OK n={n}"
      | some (some d, _) => IO.println s!"S {s.idx} L2 DIFF {d}"
      | none => pure ()
    match s.live with
    | some (l, m) => if l ≠ 0 || m < 0 then IO.println s!"S {s.idx} LIVE FAIL live={l} min={m}" else pure ()
    | none => pure ()

partial def loop (h : IO.FS.Stream) (s : Script) : IO Unit := do
  let line ← h.getLine
  if line.isEmpty then return ()
  let toks := splitNonEmpty line.trimAscii.toString " "
  match toks with
  | "cfg" :: rest =>
    match parseCfg rest with
    | some c => loop h { idx := s.idx, cfg := some c }
    | none => loop h { idx := s.idx, bad := some ("cfg: " ++ line.trimAscii.toString) }
  | "ev" :: rest =>
    if s.bad.isSome then loop h s else
    match parseEvent rest with
    | some e => loop h { s with evs := s.evs.push e }
    | none => loop h { s with bad := some ("ev: " ++ line.trimAscii.toString) }
  | "h" :: rest =>
    if s.bad.isSome then loop h s else
    match parseH rest with
    | some e => loop h { s with hs := s.hs.push e }
    | none => loop h { s with bad := some ("h: " ++ line.trimAscii.toString) }
  | ["end"] =>
    finish s
    loop h { idx := s.idx + 1 }
  | [] => loop h s
  | "#" :: _ => loop h s
  | ["x", "live", l, m] =>
    match l.toInt?, m.toInt? with
    | some l, some m => loop h { s with live := some (l, m) }
    | _, _ => loop h { s with bad := some ("x: " ++ line.trimAscii.toString) }
  | "st" :: inst :: rest =>
    -- structure dump of instance `inst` after the most recent event
    if inst == "0" && s.evs.size > 0 then loop h { s with sts := s.sts.push (s.evs.size - 1, " ".intercalate rest) }
    else loop h s
  | _ => loop h { s with bad := some ("line: " ++ line.trimAscii.toString) }

def main : IO Unit := do
  loop (← IO.getStdin) {}
