import Verif
/-!
# Driver: reads `cfg` / `ev` / `end` lines on stdin, prints one verdict line per script and check
-/
open Verif Verif.Proto Verif.Check

structure Script where
  idx : Nat := 0
  cfg : Option (Cfg × Nat × String) := none
  evs : Array Event := #[]
  bad : Option String := none
  live : Option (Int × Int) := none

def finish (s : Script) : IO Unit := do
  match s.bad, s.cfg with
  | some b, _ => IO.println s!"S {s.idx} BAD {b}"
  | none, none => IO.println s!"S {s.idx} BAD no-cfg"
  | none, some (cfg, nkeys, _mode) =>
    match l1 cfg nkeys s.evs.toList with
    | none => IO.println s!"S {s.idx} L1 OK n={s.evs.size}"
    | some d => IO.println s!"S {s.idx} L1 DIFF {d.show}"
    match s.live with
    | some (l, m) => if l ≠ 0 || m < 0 then IO.println s!"S {s.idx} LIVE FAIL live={l} min={m}" else pure ()
    | none => pure ()

partial def loop (h : IO.FS.Stream) (s : Script) : IO Unit := do
  let line ← h.getLine
  if line.isEmpty then return ()
  let toks := splitNonEmpty line.trimAscii.toString " "
  match toks with
  | "cfg" :: rest =>
    match parseCfg rest with
    | some c => loop h { idx := s.idx, cfg := some c }
    | none => loop h { idx := s.idx, bad := some ("cfg: " ++ line.trimAscii.toString) }
  | "ev" :: rest =>
    if s.bad.isSome then loop h s else
    match parseEvent rest with
    | some e => loop h { s with evs := s.evs.push e }
    | none => loop h { s with bad := some ("ev: " ++ line.trimAscii.toString) }
  | ["end"] =>
    finish s
    loop h { idx := s.idx + 1 }
  | [] => loop h s
  | "#" :: _ => loop h s
  | ["x", "live", l, m] =>
    match l.toInt?, m.toInt? with
    | some l, some m => loop h { s with live := some (l, m) }
    | _, _ => loop h { s with bad := some ("x: " ++ line.trimAscii.toString) }
  | "st" :: _ => loop h s
  | _ => loop h { s with bad := some ("line: " ++ line.trimAscii.toString) }

def main : IO Unit := do
  loop (← IO.getStdin) {}
